#!/usr/bin/env python3
"""Run the repository's baseline test suite with the verification guard OFF and compare with BASELINE.json:
every test listed in stable_pass must pass.  usage: tools/baseline_check.py [junit.xml to reuse]"""
import json, os, subprocess, sys, tempfile
import xml.etree.ElementTree as ET
base = json.load(open('/root/.vp/BASELINE.json'))
if len(sys.argv) > 1:
    xml = sys.argv[1]
else:
    xml = tempfile.mktemp(suffix='.xml', prefix='verif_junit_')
    env = {k: v for k, v in os.environ.items() if not k.startswith('VECTORIZERS_VERIF')}
    subprocess.run(['/venv/bin/python', '-m', 'pytest', '-ra', '-q', '-p', 'no:cacheprovider', '--timeout=900',
                    '--continue-on-collection-errors', '--junitxml=' + xml], cwd='/repo', env=env,
                   stdout=subprocess.DEVNULL, stderr=subprocess.DEVNULL)
passed = set()
for tc in ET.parse(xml).getroot().iter('testcase'):
    if not any(ch.tag in ('failure', 'error', 'skipped') for ch in tc):
        passed.add(tc.get('classname') + '::' + tc.get('name'))
missing = [t for t in base['stable_pass'] if t not in passed]
print('stable_pass:', len(base['stable_pass']), 'passing now:', len(base['stable_pass']) - len(missing))
for t in missing[:30]:
    print('  NOT PASSING:', t)
sys.exit(1 if missing else 0)
