#!/bin/sh
# usage: tools/run_all_quick.sh [seed] [ids...]  - runs the quick tier of every check, one line per check
SEED="${1:-0}"; shift 2>/dev/null
IDS="${*:-C01 C02 C03 C04 C05 C06 C07 C08 C09 C10 C11 C12 C13 C14 C15 C16 C17 C18 C19 C20}"
cd /verif || exit 2
for p in $IDS; do
  s=$(date +%s)
  VERIF_SEED=$SEED bin/check $p --tier quick > /tmp/quick_$p.out 2> /tmp/quick_$p.err; rc=$?
  e=$(date +%s)
  echo "$p seed=$SEED rc=$rc $((e-s))s $(grep -c '^VIOLATION' /tmp/quick_$p.out) violations $(grep -c '^KNOWN-FINDING' /tmp/quick_$p.out) known | $(grep 'done:' /tmp/quick_$p.err | tail -1 | cut -c1-120)"
done
