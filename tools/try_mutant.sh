#!/bin/sh
# usage: tools/try_mutant.sh <patch.diff> <check args...>   - applies the patch to /repo, runs bin/check, restores /repo
P="$1"; shift
cd /repo || exit 2
if ! git diff --quiet; then echo "repo dirty"; exit 2; fi
git apply "$P" || { echo "patch does not apply"; exit 2; }
cd /verif && bin/check "$@" 2>&1 | grep -E "^VIOLATION|done:| x |MACHINERY|KNOWN" | cut -c1-260 | head -12
echo "exit=$?"
git -C /repo checkout -- . ; git -C /repo status --short | head -3
