#!/usr/bin/env python3
"""usage: tools/mk_mutant_prompt.py <ID> <worktree dir> [hint]  - prints the prompt given to an independent sub-agent that seeds a
property-breaking change (it gets the property text and its own worktree, nothing from /verif)."""
import json, sys
pid, wt = sys.argv[1], sys.argv[2]
hint = sys.argv[3] if len(sys.argv) > 3 else ""
p = [json.loads(l) for l in open('/verif/properties.jsonl') if l.strip()]
p = [x for x in p if x['id'] == pid][0]
files = ", ".join(p['anchors']['files'])
print(f"""You are helping to evaluate a verification effort by producing a realistic *bug-introducing* change to a Python library (the scikit-learn-style `vectorizers` package, TutteInstitute/vectorizers).

Work ONLY inside the git worktree at {wt} (a checkout of the library; python is /venv/bin/python; run things with `cd {wt} && PYTHONPATH={wt} /venv/bin/python ...` so that the worktree's copy of the package is imported - check `vectorizers.__file__`). Do not touch /repo or /verif, do not read anything under /verif. There is no network.

The property to break:

  Title: {p['title']}
  Statement: {p['statement']}
  Quantifier: {p['quantifier']['text']}

Task: write a small, realistic source change to the library (the kind of slip a maintainer could make in a refactor or optimisation: an off-by-one, a wrong index/variable, a dropped rebind, a changed comparison, a cached value reused, a boundary case lost...) such that
  1. the package still imports and the existing test suite still passes. On the unchanged library the full suite gives 493 passed, 2 failed (`test_wasserstein_based_vectorizer_bad_params[lil-LOT_exact-*]` fail even without any change; those do not count) - you do NOT need to re-establish that. The full suite takes 25-60 minutes on this loaded machine, so do NOT run it: instead run, after your change, every test file / test function that exercises the code you touched (e.g. `cd {wt} && PYTHONPATH={wt} /venv/bin/python -m pytest -q -p no:cacheprovider --timeout=2400 vectorizers/tests/test_common.py -k "<keyword>"`, and the other files under vectorizers/tests that import the module you changed; use `grep -rn` over vectorizers/tests to find them) and make sure they all still pass; the full suite will be run by someone else afterwards and your change is discarded if any test fails, so be careful about which tests could notice;
  2. the property above is violated, but only in a situation that needs something specific to manifest - e.g. a particular multi-step sequence of operations, an unusual-but-valid input (empty item, repeated token, a boundary count, a particular parameter combination), a buffer/threshold being crossed, a particular chunk/thread layout, or two cooperating sites that each look fine alone. NOT something that ordinary default use would expose at once;
  3. you provide a demonstration: a small standalone script `{wt}/demo.py` (run as `PYTHONPATH={wt} /venv/bin/python demo.py`) that exits 0 and prints PASS on the unchanged library and exits 1 and prints FAIL with your change applied. The demo must test the *property as stated* (not an implementation detail).

Deliver, in {wt}: `patch.diff` (output of `git diff` for the library change only, not including demo.py), `demo.py`, and a short `NOTES.md` saying which file/function you changed, why the tests do not notice, and what exactly is needed for the violation to manifest. Leave the change applied in the worktree. NEVER use `git stash` (the stash is shared with other checkouts of this repository and would be corrupted): to test the unchanged library use `git apply -R patch.diff` and afterwards `git apply patch.diff`. Prefer a change in the core code paths the property is about ({files}). One change only; keep it under ~15 changed lines. {hint}

In your final message, report: the diff, the demo output before/after, and which tests you ran after the change with their result.""")
