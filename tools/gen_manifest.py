#!/usr/bin/env python3
"""Regenerates /verif/MANIFEST.json from the table below (one source of truth for the interface)."""
import json
import os

ROOT = os.path.dirname(os.path.dirname(os.path.abspath(__file__)))
ALL = ["C%02d" % i for i in range(1, 21)]

CHECKS = {
    "C01": dict(
        cat="model_checking", ref="5 (C01)",
        text="Every row-producing family is checked on transform inputs X' that differ from the training data, with the oracle of that "
             "family's specification: Ngram.tla / Skipgram.tla / EdgeList.tla enumerate (X, X', configuration) with unseen tokens / "
             "labels, empty and longer items and compare rows, shapes and column dictionaries; LZ.tla and Trace_BPE.tla decide "
             "recorded transforms of new strings (unseen phrases, characters above max_char_code); Histogram.tla rows for values "
             "outside the training range; Cooc.tla with the unseen tokens as its excluded set decides the token x token matrices of "
             "transform after a fit on a vocabulary corpus (deleted or masked); Protocol.tla clauses one_row_per_item / "
             "width_fixed_at_fit are validated on recorded histories of KDE, Distribution, Histogram, the matrix transformers and "
             "the Wasserstein family (methods x input formats) for items never seen in fit. A fitted vectorizer is also one with a "
             "past: Protocol.tla lifetimes (New, same-object re-fit, Reconf = set_params to another configuration) share one memo, "
             "so every estimator kind re-fitted on another batch / re-parameterised must answer like a fresh one.",
        note="Aggregates the bounded instance spaces of C06, C09, C16, C20 plus the new Cooc-with-unseen-tokens and protocol parts.",
        tech="functional TLA+ specifications (exact label-wise oracles) + protocol trace validation for float-valued producers"),
    "C02": dict(
        cat="model_checking", ref="5 (C02), 4.17",
        text="Protocol.tla specifies the estimator life cycle and what an observation of a call may show (row classes consistent "
             "with a memo keyed by fit batch and item, width fixed at fit, fit returns self, model class equal for equal seed); "
             "TLC generates call histories containing fit_transform(b) and fit(b); transform(b); they are replayed into 25 "
             "estimator kinds x 2-6 configurations (every metric, input_method, method, memory_size, kernel, orientation, mask "
             "setting, n_iter, return_type in the adapter tables) with the same integer seed, and Trace_Protocol.tla decides "
             "each recorded history step by step. Exact equality with the definition for count/co-occurrence/encoding outputs "
             "comes from C03/C06/C09/C16.",
        note="Relational oracle (two implementation paths must agree on row classes at rtol 1e-7..1e-5); pools of 4-8 items; "
             "SVD-compressed outputs with n_components 2-3 below the rank.",
        tech="TLA+ protocol specification: TLC-generated call histories replayed, recorded observations validated by a trace spec"),
    "C03": dict(
        cat="model_checking", ref="5 (C03), 4.3",
        text="Cooc.tla / CoocMulti.tla / CoocNgram.tla state the matrices of the four sequence co-occurrence "
             "vectorizers in exact rational arithmetic (event stream + fold, cross-checked inside TLC against an "
             "independent declarative cell definition, transpose and mass-one lemmas, time-shift invariance). TLC "
             "enumerates all corpora within small bounds x a configuration set (kernels, orientations, radii incl. "
             "per-token tables, offsets, kernel/window normalisation, mix weights, two windows) and every instance is "
             "replayed through fit_transform and fit().transform of the real classes and compared label-wise.",
        note="Bounded: V<=3 tokens, <=2 documents, length<=5 exhaustively (larger by simulation in C04); geometric "
             "kernel with power 1/2 and timed delta=1 so weights are exact; variable radii injected as tables.",
        tech="functional TLA+ specification with exact rationals + TLC instance enumeration replayed into the code"),
    "C05": dict(
        cat="model_checking", ref="5 (C05), 4.1",
        text="Vocab.tla defines the kept vocabulary and its indices by integer cross-multiplication (no floats); TLC "
             "checks on every instance that the implementation's top-k rule satisfies the stated relation, that indices "
             "are a bijection onto 0..n-1 in sorted order, invariance under document/token reordering and that a count "
             "equal to a bound is kept. All corpora over 3 tokens (<=2-3 documents of <=3 tokens) x 48-160 pruning "
             "configurations, and every (count,total) pair up to 40 (150 thorough) with the bound sitting exactly on "
             "the count or frequency, are replayed through preprocess_token/timed/multi_token_sequences (dictionary, "
             "inverse dictionary, pruned sequences, supplied dictionary with and without mask) and a sample through "
             "NgramVectorizer / SkipgramVectorizer / TokenCooccurrenceVectorizer.",
        note="Bounded corpora; regex clause exercised with three token names chosen so that fullmatch differs from "
             "match/search; n-gram second-stage vocabulary is covered under C06.",
        tech="functional TLA+ specification (exact integer predicates) + TLC enumeration replayed into preprocessing"),
    "C06": dict(
        cat="model_checking", ref="5 (C06), 4.7",
        text="Ngram.tla (two-stage vocabulary, exact/subgrams, masking, transform, and the '+' merge with the TLC-checked "
             "lemma 'merge = fit on the concatenation'), Skipgram.tla (pair masses, fitted columns, transform) and "
             "EdgeList.tla (learned/supplied/joint dictionaries, shape, conservation) define every entry as an exact "
             "count; TLC enumerates all (training input, transform input, configuration) triples within small bounds and "
             "each is replayed through fit_transform, fit().transform(X'), transform(X) and (a+b) of the real classes "
             "and compared label-wise, including column dictionaries, indices and shapes.",
        note="Bounds: 2-3 tokens, <=2 documents of <=3-4 tokens, transform inputs with one unseen token; edge lists of <=2+2 "
             "edges over 2(+1 unseen) labels, values {-1,0,2}; Skipgram kernels flat/harmonic (kernel_args are unusable in "
             "the class). Named preconditions: a non-empty kept vocabulary / at least one n-gram.",
        tech="functional TLA+ specifications + TLC enumeration of (X, X', cfg) replayed into the code"),
    "C07": dict(
        cat="model_checking", ref="5 (C07), 4.11",
        text="Transport.tla enumerates integer transportation problems (all mass vectors with a common total, all cost "
             "matrices in 0..C, shapes 1x1..3x3 incl. 1xm / nx1, zero masses, ties) and finds the LP optimum by enumerating "
             "integer plans; TLC also checks LP-duality lemmas (CertificateSound, CertificateExists, WeakDuality). Every "
             "instance is solved by the real transport_plan with C- and F-ordered cost matrices and the plan is checked "
             "for non-negativity, both marginals (1e-9) and optimal cost (1e-7). Beyond enumeration range (up to 800 "
             "columns, n*m on both sides of 65536) recorded instances carry integer dual potentials whose feasibility "
             "and value TLC decides (Trace_Transport.tla); weak duality makes that value a lower bound on every coupling.",
        note="Integer masses / costs (or costs / 7); dual potentials for recorded instances come from an independent HiGHS "
             "solve and are only trusted after TLC accepted them.",
        tech="TLA+ specification of the transportation LP with TLC-enumerated optima + certificate validation of recorded runs"),
    "C08": dict(
        cat="model_checking", ref="5 (C08), 4.12",
        text="Measure.tla is the group of re-encodings of a finite measure (scale, zero-weight padding, reordering, splitting a "
             "point into duplicates, merging); TLC proves on the bounded model that every reachable encoding denotes the same "
             "measure and that the six base measures are pairwise different, and emits the reachable encodings. Protocol.tla "
             "histories over MEASURES (fit once, then transforms interleaved with memory_size / chunk-size knob changes, equal "
             "distributions inside one batch) are instantiated with random encodings carried as lists, generators and sparse "
             "matrices (explicit zeros, duplicated columns) for LOT_exact (3 input methods), LOT_sinkhorn, "
             "HeuristicLinearAlgebra, SinkhornVectorizer and ApproximateWassersteinVectorizer, cosine and euclidean; "
             "Trace_Protocol.tla decides each recorded history with the memo keyed by measure. Further histories transform batches "
             "longer than the internal chunk (300 rows inside one 288-row block) and carry the same measures through all three "
             "input formats of one estimator kind with one explicit reference measure (Reconf + New, shared memo).",
        note="Relational oracle; generic support vectors (unique optimal plan almost surely); normalisation powers other than 1 are "
             "documented as scale dependent and outside the claim; the full-rank isometry clause is checked numerically in the "
             "thorough tier only.",
        tech="TLA+ specification of the re-encoding group + protocol trace validation with the memo keyed by measure"),
    "C09": dict(
        cat="model_checking", ref="5 (C09), 4.9",
        text="BPE.tla: training as a nondeterministic merge machine with the contraction loop transcribed (loop variable "
             "that may be unassigned, guarded tail); TLC checks in every reachable state of the bounded model that "
             "encodings decode to the original strings, that replaying the code list reproduces them, that codes are "
             "well formed and that the loop is safe and equals the declarative contraction. Recorded fits of the real "
             "vectorizer (code_list_, tokens_, max_char_code_, fit_transform and transform encodings of training and new "
             "strings, all three return types) are decided by Trace_BPE.tla: lossless, transform = replay, fit_transform = "
             "transform on the training strings, token = concatenation of its pair, budget respected.",
        note="Named precondition: some adjacent pair occurs twice (else training raises). The greedy pair choice is not part "
             "of the property and not constrained. Random corpora over {a,b}, {a,b,c} and unicode strings incl. lengths 0/1.",
        tech="TLA+ state machine (nondeterministic merges) model-checked + trace validation of recorded fits"),
    "C10": dict(
        cat="model_checking", ref="5 (C10)",
        text="Design: the algorithmic specifications carry the access invariants of the transcribed kernels - CooBuffer.tla NoOOB / Room "
             "/ Layout, EMStep.tla NoOOB (guarded searchsorted read), BPE.tla ContractionSafe (loop variable assigned, index in "
             "range), SparseOps.tla FitsBuffer, SlidingWindow.tla InRange - model-checked on bounded instances with a vacuity "
             "control (the unguarded variants must violate them). Binding: instances generated from the specifications (accumulator "
             "histories, EM steps with pruned cells, pipelines with radii larger than the sequences / empty documents / 1k "
             "buffers, BPE and LZ on strings of length 0-2, sparse helpers, distances, sliding windows) are executed compiled, "
             "with NUMBA_BOUNDSCHECK=1 and with NUMBA_DISABLE_JIT=1 and every result must equal the compiled one.",
        note="Model checking for the five transcribed kernels; all other kernels are covered through the checked-mode executions only.",
        tech="algorithmic TLA+ specifications with access invariants + differential execution in bounds-checked / interpreted modes"),
    "C11": dict(
        cat="model_checking", ref="5 (C11), 4.6",
        text="EMStep.tla gives one EM iteration twice - declaratively (each occurrence distributes one unit of mass over the cells of "
             "its own row in proportion to kernel weight x prior) and as the CSR algorithm (row slice, searchsorted position, guarded "
             "read, write offset) - and TLC checks on every (document, prior) of the bounded model, priors with missing cells "
             "included, that the two agree, that no read is out of range, that the support never grows and that mass stays in the "
             "occurrence's row. The enumerated instances are replayed through the real _em_cooccurrence_iteration and compared as "
             "exact rationals. Whole pipelines (four vectorizers, n_iter 1..3, epsilon 0..0.5, n_threads) are recorded and "
             "Trace_EM.tla decides the stated consequences (range, column sums, epsilon, support monotonicity); Trace_EMChain.tla "
             "decides the iteration itself: every recorded M_{k+1} must lie in the box TLC computes from the recorded M_k with the "
             "documented step (several windows with radii, orientations, mix weights and kernels; token, timed, multiset and "
             "n-gram families) in integer interval arithmetic. Cooc.tla Thresh is the exact oracle for n_iter=0, epsilon>0.",
        note="Exact single-step oracle for the token vectorizer (V=2..3, length <= 4-5); the chain check is sound by construction "
             "(interval bounds) and as sharp as the conditioning allows (observed box widths: median 2e-5, max 4e-3).",
        tech="algorithmic + declarative TLA+ specification of the EM step, TLC enumeration replayed; trace validation of pipelines"),
    "C12": dict(
        cat="model_checking", ref="5 (C12), 4.17",
        text="Protocol.tla: after Fit(b0) every Transform(b) must return Len(b) rows, each equal to the memo entry of its item "
             "(duplicates give duplicate rows, permutations permute, concatenation = concatenated transforms) whatever knobs "
             "(memory_size, chunk sizes, thread counts) were set in between; TLC generates fit->transform* histories over a pool "
             "of 4 items (batches of <= 3 with repetitions) which are replayed into 19 row-wise estimator kinds and decided by "
             "Trace_Protocol.tla. Hand-written histories add empty items, batches that do not fill whole internal blocks / chunks "
             "(7 rows with 4-row blocks, 300 rows with a 288-row block and 256-row chunks) and an outlier batch mate.",
        note="Row classes by tolerant equality (classes only merge); OS thread schedules are sampled through pool sizes, not "
             "enumerated.",
        tech="TLA+ protocol specification + TLC-generated histories + trace validation"),
    "C13": dict(
        cat="model_checking", ref="5 (C13), 4.17",
        text="Protocol.tla clauses arguments_modified / constructor_parameter_objects_modified / temporary_files_left_behind / "
             "same_seed_same_model and the memo (a later transform returns what an earlier one returned) are decided by "
             "Trace_Protocol.tla on recorded histories over fit, fit_transform, transform, refit (same seed) and knob changes for "
             "all 25 estimator kinds; observations are deep snapshots of arguments (incl. CSC with unsorted indices and explicit "
             "zeros, unnormalised list distributions, user dictionaries), of the estimator and of a private TMPDIR. Fault "
             "sequences: the data source of a blocked generator fit / transform raises part-way.",
        note="'transform changed some attribute of the estimator' is reported as drift only (stricter than the statement).",
        tech="TLA+ protocol specification + TLC-generated histories incl. fault steps + trace validation"),
    "C14": dict(
        cat="model_checking", ref="5 (C14), 4.2",
        text="Cooc.tla carries the vocabulary setting (excluded tokens, mask on/off): removed tokens are deleted or replaced in "
             "place by the mask index; TLC checks MaskKeepsPositions and NullifyRemovesOnlyTheMask (mask row / columns zero, every "
             "other un-normalised cell equal to the masked computation) on every instance; instances (token and timed "
             "vectorizers, 3 kernels, all orientations, window / kernel normalisation, offsets, two windows) are replayed through "
             "fit_transform and fit().transform with excluded_tokens / mask_string / nullify_mask and compared label-wise, "
             "including the position of the mask entry in the dictionary. Tree.tla does the same for the tree vectorizer "
             "(contraction vs relabelling) and Ngram.tla for the position-preserving part of NgramVectorizer.",
        note="Pruning by excluded tokens (occurrence-bound pruning is C05); multiset and n-gram co-occurrence masks are not "
             "given their own instances.",
        tech="functional TLA+ specifications with masking invariants + TLC enumeration replayed into the code"),
    "C15": dict(
        cat="model_checking", ref="5 (C15), 4.10",
        text="Tree.tla defines entry (a, b) as the kernel-weighted number of k-step ancestor walks between nodes labelled a and b, "
             "for the four orientations, with label removal as contraction (children re-parented to the nearest kept ancestor) or "
             "masking; TLC checks on every instance that contraction preserves reachability, shortens walks by exactly the "
             "removed nodes, and that on path graphs the entry equals the sequence co-occurrence definition. Instances (forests "
             "of 1-2 trees on <= 4-5 nodes, all parent functions, 3 labels, radius 1-3, 3 kernels) are replayed through "
             "fit_transform / fit().transform; path graphs also through TokenCooccurrenceVectorizer. Kernel offset / "
             "normalisation, adjacency matrices of every sparse format and integer / boolean dtype, forests whose every node is "
             "masked and estimators with a past are part of the instance space.",
        note="Seeded sample of the instance space per run (600 quick / 15000 thorough); unit edge weights.",
        tech="functional TLA+ specification + TLC per-instance evaluation with lemmas, replayed into the code"),
    "C16": dict(
        cat="model_checking", ref="5 (C16), 4.8",
        text="LZ.tla is the parse state machine of lempel_ziv_based_encode (start, end, dictionary with insertion order, "
             "size cap, base dictionary) plus first-seen column assignment; the hash value of every phrase is LOGGED from "
             "the fitted hash function and handed to TLC, so collisions are modelled. For each recorded fit TLC "
             "recomputes columns, fit_transform rows, transform rows of training and new strings and checks RowTotal, "
             "WithinBudget, OwnStringOnly; the harness compares them with the real output (identity keys, a colliding "
             "custom hash, murmur hashing with 2..65536 columns, base dictionaries, caps 2..100).",
        note="The murmur hash itself is not specified (its values are observations); strings over {a,b} up to length 5-6 "
             "plus unicode / longer repetitive strings.",
        tech="TLA+ parse state machine evaluated by TLC on recorded instances with logged hash tables"),
    "C17": dict(
        cat="model_checking", ref="5 (C17), 4.13",
        text="InfoWeight.tla (1) models the re-encodings of a count matrix handed over as COO triples (reordering, explicit zeros, an "
             "entry split into duplicates) and TLC proves each reachable encoding denotes the same matrix; the exact-prior weights "
             "computed from every encoding in six storage formats (COO with duplicates, CSR, CSC, CSC with unsorted indices, LIL, "
             "dense) must coincide, be finite and non-negative, be invariant under row permutation and permute with the columns; "
             "(2) TLC searches small integer matrices and prior strengths for 'dyadic' columns whose posterior/baseline ratios are "
             "all powers of two, where KL / ln 2 is the rational sum_i post_i k_i, and the implementation's weight is compared with "
             "that exact value; (3) fitted transformers (approx/exact prior, weight_power, supervised y) are checked to be the "
             "column scaling X diag(w): linear, support preserving, w >= 0.",
        note="'weight = KL divergence' is exact on the searched dyadic family only (325+ columns); the approximate prior is checked "
             "for finiteness and the permutation laws, not for encoding independence (it counts stored entries by design).",
        tech="TLA+ specification of matrix re-encodings + TLC search for exactly computable KL instances, replayed into the code"),
    "C18": dict(
        cat="model_checking", ref="5 (C18), 4.14",
        text="SparseOps.tla transcribes the two-pointer merges of sparse_sum/diff/mul, arr_union/intersect and dense_union "
             "and TLC checks, for every pair of sparse vectors in the bounded model, equality with dense arithmetic in "
             "indices and values, canonical output and buffer bounds; Dist.tla gives exact rational total variation, "
             "Kantorovich p=1 and Hellinger (perfect-square entries) and TLC checks symmetry, range, zero exactly on "
             "proportional pairs and the triangle inequality on all triples. Every instance is replayed through the dense "
             "and sparse functions (swapped and positively rescaled arguments, inputs compared before/after); axiom events "
             "recorded on random vectors (dimension 1..50, heavy tails, disjoint supports) are decided by Trace_Dist.tla.",
        note="Exact values only where a rational closed form exists; Jensen-Shannon / symmetric KL are checked against the "
             "stated axioms (finite, non-negative, symmetric, zero on proportional inputs, sparse = dense) only.",
        tech="algorithmic + functional TLA+ specifications, TLC enumeration replayed into the code, trace validation of axiom events"),
    "C20": dict(
        cat="model_checking", ref="5 (C20), 4.16",
        text="Histogram.tla transcribes the training filter, interval_range / the cumulative-sum quantile rule, "
             "expand_boundaries and add_outier_bins on integer data and TLC checks Partition (gap-free, increasing, spanning "
             "the absolute range) and Conservation (row total = values in (lo, hi]) on every generated instance; bins and rows "
             "are compared exactly with HistogramVectorizer (fit, transform of new data incl. values equal to the training "
             "extremes and far outside, fit_transform; lists and arrays). KDE: Protocol.tla histories over a pool in which pairs "
             "of items are permutations of one another (mapped to one memo key), decided by Trace_Protocol.tla, plus sign / "
             "finiteness / width observations.",
        note="Seeded random instances (700 quick / 8000 thorough), uniform data scaled so that breaks are integers; KDE density "
             "values themselves need exp and are not given an oracle (the statement does not ask for one).",
        tech="functional TLA+ specification evaluated by TLC per instance + protocol trace validation for KDE"),
    "C19": dict(
        cat="model_checking", ref="5 (C19), 4.15",
        text="SlidingWindow.tla states the documented meaning (padding, number of windows, window i = elements "
             "[i*stride, i*stride+width), the four window_sample forms, kernels id/average/differences/weight as integer "
             "matrices) on sequences whose element p is (d+1)*3^p, so every output identifies the positions it was built "
             "from; TLC checks InRange / LastFits / the SequentialDifference lemma on the whole enumerated space "
             "(~33k instances) and a seeded sample (each fit compiles a fresh kernel, ~1-2 s) is replayed through "
             "SlidingWindowTransformer and SequentialDifferenceTransformer with exact comparison.",
        note="L<=7 (9 thorough), width<=5, stride<=3, pad<=2, 1-d and 2-column inputs; position_velocity, gaussian and "
             "function kernels are not given an exact oracle; index lists must name distinct positions and a 2-element "
             "list/tuple is a (start, stride) pair as documented.",
        tech="functional TLA+ specification on position-coded integer sequences + TLC evaluation replayed into the code"),
    "C04": dict(
        cat="model_checking", ref="5 (C04), 4.4, 4.5",
        text="CooBuffer.tla (a line-by-line state machine of coo_utils.py) is model-checked exhaustively for small "
             "LIMIT/CAP0/keys (NoOOB, Conservation, RunsSorted, Layout, Room, FinalOK); every distinct reachable state "
             "is reproduced in the real coo_append (S->C, all arrays compared) and real executions on random key "
             "streams are validated step by step by Trace_CooBuffer.tla (C->S); whole pipelines are swept over "
             "n_threads / coo_initial_memory / hook LIMIT / fit_transform-vs-transform and compared with the exact "
             "Cooc.tla oracle; bulk runs at the production threshold are checked for conservation.",
        note="Bounded model (LIMIT 2..64 via the env hook, CAP0 20..200, <= 60 keys); production threshold checked by "
             "conservation only; OS thread interleavings sampled, not enumerated.",
        tech="TLA+ state machine of the COO accumulator + TLC (exhaustive, simulate) + trace validation both directions"),
}

NOT_YET = "check not built yet in this round (specification planned in DESIGN.md section 5); no claim is made"


def main():
    checks = []
    for pid in ALL:
        if pid not in CHECKS:
            continue
        c = CHECKS[pid]
        checks.append({
            "property_id": pid,
            "quick_cmd": "bin/check %s --tier quick" % pid,
            "thorough_cmd": "bin/check %s --tier thorough" % pid,
            "evidence_file": "/verif/evidence/%s.json" % pid,
            "replay_cmd_template": "bin/check %s --replay {path}" % pid,
            "engine": "tlc+replay",
            "level_claimed": {"category": c["cat"], "text": c["text"], "design_ref": "DESIGN.md section " + c["ref"]},
            "level_note": c["note"],
            "technique": c["tech"],
        })
    m = {
        "version": 1,
        "setup_cmd": "bin/check --selftest",
        "hooks": {
            "guard": "VECTORIZERS_VERIF",
            "enable": "VECTORIZERS_VERIF=1 VECTORIZERS_VERIF_COO_LIMIT=<n> in the environment of the process that imports "
                      "vectorizers (pure-python package: nothing to rebuild; checks import /repo's working tree)",
            "baseline_off_cmd": "cd /repo && env -u VECTORIZERS_VERIF -u VECTORIZERS_VERIF_COO_LIMIT /venv/bin/python -m pytest -ra -q "
                                "-p no:cacheprovider --timeout=900 --continue-on-collection-errors",
            "source_commits": ["124c9c7"],
            "add_only": True,
        },
        "engines": [
            {"name": "tlc+replay", "path": "/verif/bin/check",
             "serves_properties": sorted(CHECKS),
             "kind_free_text": "explicit TLA+ specifications under /verif/specs checked with TLC 1.8 (exhaustive + simulate); "
                               "bound to the code by replaying TLC-generated instances/behaviours into the real package "
                               "(S->C) and validating traces recorded from the real package with Trace_*.tla (C->S)"}
        ],
        "checks": checks,
        "not_applicable": [{"property_id": p, "reason": NOT_YET} for p in ALL if p not in CHECKS],
        "notes": "See DESIGN.md. Exit codes: 0 held, 1 VIOLATION line printed, 2 machinery failure. "
                 "known_findings.json lists recorded (unrepaired) defects and repaired ones (status fixed).",
    }
    with open(os.path.join(ROOT, "MANIFEST.json"), "w") as f:
        json.dump(m, f, indent=1)
    print("wrote MANIFEST.json with", len(checks), "checks")


if __name__ == "__main__":
    main()
