#!/bin/sh
# usage: tools/confirm_mutant.sh <worktree> <out.log> : demo with/without the change + the pinned test suite with the change
WT="$1"; OUT="$2"
cd "$WT" || exit 2
{
echo "== demo WITH change"; PYTHONPATH=$WT timeout 1800 /venv/bin/python demo.py > /tmp/demo_with.$$ 2>&1; echo "exit=$?"; tail -3 /tmp/demo_with.$$
git apply -R patch.diff   # (git stash is shared between worktrees: never use it here)
echo "== demo WITHOUT change"; PYTHONPATH=$WT timeout 1800 /venv/bin/python demo.py > /tmp/demo_wo.$$ 2>&1; echo "exit=$?"; tail -2 /tmp/demo_wo.$$
git apply patch.diff
echo "== test suite WITH change"
PYTHONPATH=$WT /venv/bin/python -m pytest -q -p no:cacheprovider --timeout=1800 -n 8 --continue-on-collection-errors --junitxml=/tmp/junit.$$.xml vectorizers/tests > /tmp/pytest.$$ 2>&1
tail -4 /tmp/pytest.$$
/venv/bin/python /verif/tools/baseline_check.py /tmp/junit.$$.xml
rm -f /tmp/demo_with.$$ /tmp/demo_wo.$$ /tmp/pytest.$$ /tmp/junit.$$.xml
} > "$OUT" 2>&1
