#!/usr/bin/env python3
"""Validate MANIFEST.json and evidence/*.json against the schemas (run with python3-vt)."""
import glob, json, sys
import jsonschema
m = json.load(open('/verif/MANIFEST.json'))
jsonschema.validate(m, json.load(open('/root/.vp/MANIFEST.schema.json')))
print("manifest ok:", len(m["checks"]), "checks,", len(m.get("not_applicable", [])), "not_applicable")
es = json.load(open('/root/.vp/EVIDENCE.schema.json'))
for f in sorted(glob.glob('/verif/evidence/*.json')):
    e = json.load(open(f))
    jsonschema.validate(e, es)
    print("evidence ok:", f, e["tier"], "viol=", e.get("violations"), "nontrivial=", e["coverage"].get("distinct_nontrivial"))
