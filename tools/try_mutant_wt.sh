#!/bin/sh
# usage: tools/try_mutant_wt.sh <patch.diff> <check args...>
# Tries a seeded change WITHOUT touching /repo: a scratch worktree of /repo's HEAD gets the patch, the check runs
# against it (VERIF_REPO) and writes its evidence / replays to a scratch directory (VERIF_OUT); both are removed.
P="$(realpath "$1")"; shift
N="$(basename "$(dirname "$P")")_$$"
WT=/tmp/mutwt_$N; OUT=/tmp/mutout_$N
git -C /repo worktree add -q --detach "$WT" HEAD || exit 2
( cd "$WT" && git apply "$P" ) || { echo "patch does not apply"; git -C /repo worktree remove --force "$WT"; exit 2; }
mkdir -p "$OUT"
cd /verif && VERIF_REPO="$WT" VERIF_OUT="$OUT" bin/check "$@" 2>&1 | grep -E "^VIOLATION|done:| x |MACHINERY|KNOWN" | cut -c1-260 | head -12
git -C /repo worktree remove --force "$WT"; rm -rf "$OUT"
