"""CLI: bin/check <ID> [--tier quick|thorough] [--replay PATH] | --selftest

exit 0  property held on everything explored (KNOWN-FINDING lines allowed)
exit 1  a line `VIOLATION property=<id> replay=<path>` was printed
exit 2  machinery failure (TLC crashed, spec does not parse, child timed out)
"""
import argparse
import importlib
import json
import os
import sys
import traceback

from .common import Ctx, MachineryError, ROOT


def selftest():
    from . import tlc
    bad = 0
    for f in sorted(os.listdir(tlc.SPECS)):
        if f.endswith(".tla"):
            ok, out = tlc.sany(os.path.join(tlc.SPECS, f))
            print("sany %-28s %s" % (f, "ok" if ok else "FAILED"))
            if not ok:
                print(out[-2000:])
                bad += 1
    return 2 if bad else 0


def main():
    if "--selftest" in sys.argv or "selftest" in sys.argv[1:2]:
        sys.exit(selftest())
    ap = argparse.ArgumentParser()
    ap.add_argument("pid")
    ap.add_argument("--tier", default=os.environ.get("VERIF_TIER", "quick"), choices=["quick", "thorough"])
    ap.add_argument("--replay")
    ap.add_argument("--only", default=None, help="comma separated part names (debugging)")
    a = ap.parse_args()
    if a.pid == "--selftest" or a.pid == "selftest":
        sys.exit(selftest())
    seed = int(os.environ.get("VERIF_SEED", "0") or 0)
    pid = a.pid.upper()
    ctx = Ctx(pid, a.tier, seed)
    ctx.only = set(a.only.split(",")) if a.only else None
    try:
        mod = importlib.import_module("harness.props." + pid.lower())
        if a.replay:
            rc = mod.replay(ctx, json.load(open(a.replay)))
        else:
            rc = mod.run(ctx)
        sys.exit(rc)
    except MachineryError as e:
        print("MACHINERY-FAILURE property=%s %s" % (pid, e), file=sys.stderr)
        sys.exit(2)
    except Exception:
        traceback.print_exc()
        print("MACHINERY-FAILURE property=%s unexpected exception" % pid, file=sys.stderr)
        sys.exit(2)


if __name__ == "__main__":
    main()
