"""CLI: bin/check <ID> [--tier quick|thorough] [--replay PATH] | --selftest

exit 0  property held on everything explored (KNOWN-FINDING lines allowed)
exit 1  a line `VIOLATION property=<id> replay=<path>` was printed
exit 2  machinery failure (TLC crashed, spec does not parse, child timed out)
"""
import argparse
import importlib
import json
import os
import sys
import traceback

from .common import Ctx, MachineryError, ROOT


def selftest():
    from . import tlc
    bad = 0
    for f in sorted(os.listdir(tlc.SPECS)):
        if f.endswith(".tla"):
            ok, out = tlc.sany(os.path.join(tlc.SPECS, f))
            print("sany %-28s %s" % (f, "ok" if ok else "FAILED"))
            if not ok:
                print(out[-2000:])
                bad += 1
    bad += binding_controls()
    return 2 if bad else 0


def binding_controls():
    """the trace specifications must reject corrupted recordings (a spec nothing binds to the code would accept them)"""
    import json
    import tempfile
    from . import tlc
    bad = 0

    def trace_run(module, payload, invariants, post=None):
        with tempfile.NamedTemporaryFile("w", suffix=".json", delete=False) as f:
            json.dump(payload, f)
        try:
            return tlc.run_tlc(module, {}, spec="TSpec" if module == "Trace_CooBuffer" else "Spec", invariants=invariants,
                               postcondition=post, workers=1, env={"TRACE_FILE": f.name}, timeout=300)
        finally:
            os.unlink(f.name)
    # 1. accumulator: a faithful 2-step trace is accepted, the same trace with one corrupted value is reported
    st1 = {"k": 1, "v": 1, "ind": 1, "depth": 0, "cap": 20, "mn": [0] * 10, "key": [1], "val": [1]}
    st2 = {"k": 2, "v": 1, "ind": 2, "depth": 0, "cap": 20, "mn": [0] * 10, "key": [1, 2], "val": [1, 1]}
    good = {"limit": 3, "cap0": 20, "maxkey": 2, "fixed": True, "traces": [{"steps": [st1, st2]}]}
    r = trace_run("Trace_CooBuffer", good, ["Mark", "Conserved"], "Accepted")
    ok1 = r.ok and not any("mismatch_tid" in p for p in r.prints)
    corrupt = json.loads(json.dumps(good))
    corrupt["traces"][0]["steps"][1]["val"] = [1, 2]
    r = trace_run("Trace_CooBuffer", corrupt, ["Mark", "Conserved"], "Accepted")
    ok2 = any("mismatch_tid" in p and "val" in p["bad"] for p in r.prints)
    print("binding control Trace_CooBuffer: faithful accepted=%s corrupted reported=%s" % (ok1, ok2))
    bad += 0 if (ok1 and ok2) else 1
    # 2. protocol: a history whose second transform returns a different row class for the same item is reported
    def call(op, b):
        return {"op": op, "b": b, "knob": 0, "expect_ok": True}

    def obs(rows, **kw):
        o = dict(rows=rows, width=3, ret_self=True, args_ok=True, params_ok=True, model_ok=True, tmp_ok=True, raised=False, model=1)
        o.update(kw)
        return o
    hist = [{"steps": [{"c": call("fit", [1, 2]), "o": obs([])}, {"c": call("transform", [1, 2]), "o": obs([1, 2])},
                       {"c": call("transform", [2, 1]), "o": obs([2, 1])}]},
            {"steps": [{"c": call("fit", [1, 2]), "o": obs([])}, {"c": call("transform", [1, 2]), "o": obs([1, 2])},
                       {"c": call("transform", [2, 1]), "o": obs([2, 2], args_ok=False)}]}]
    r = trace_run("Trace_Protocol", hist, ["Mark"], "Finished")
    flagged = {int(p["clauses_tid"]): p["bad"] for p in r.prints if "clauses_tid" in p}
    ok = (1 not in flagged) and 2 in flagged and "row_depends_only_on_item_and_model" in flagged[2] and "arguments_modified" in flagged[2]
    print("binding control Trace_Protocol: faithful accepted, corrupted reported =", ok)
    bad += 0 if ok else 1
    # 3. EM chain: two recorded runs (multiset / geometric, token / harmonic with epsilon) are accepted; the same runs with one cell
    #    moved by 0.01, with a thresholded cell resurrected, or judged with the wrong kernel weights are reported
    multi = {"family": "multi", "V": 2, "eps": 0, "N": 2, "grams": [], "wins": [{"orient": "directional", "r": 1, "mix": 1, "kw": [8, 4, 2, 1]}], "corpus": [[[0], [1, 0], [1]]],
             "mats": [[[1667, 3334, 5001, 10001], [10001, 5001, 3334, 1667]], [[29877, 356021, 643980, 970123], [970123, 643980, 356021, 29877]],
                      [[5818, 328252, 671749, 994183], [994183, 671749, 328252, 5818]]]}
    token = {"family": "token", "V": 2, "eps": 200000, "N": 2, "grams": [], "wins": [{"orient": "directional", "r": 2, "mix": 1, "kw": [2, 1]}], "corpus": [[0, 1, 1, 0, 1]],
             "mats": [[[0, 500001, 0, 625001], [1000001, 500001, 1000001, 375001]], [[0, 560001, 0, 835821], [1000001, 440000, 1000001, 0]],
                      [[0, 551804, 0, 1000001], [1000001, 448197, 1000001, 0]]]}
    c1 = json.loads(json.dumps(multi)); c1["mats"][2][0][1] += 10000
    c2 = json.loads(json.dumps(token)); c2["mats"][2][1][3] = 100001
    c3 = json.loads(json.dumps(multi)); c3["wins"][0]["kw"] = [1, 1, 1, 1]
    r = trace_run("Trace_EMChain", [multi, token, c1, c2, c3], ["Verdict"])
    v = {int(p["verdict"]): p["bad"] for p in r.prints if "verdict" in p}
    ok = len(v) == 5 and not v[1] and not v[2] and bool(v[3]) and bool(v[4]) and bool(v[5])
    print("binding control Trace_EMChain: faithful accepted, corrupted reported =", ok)
    bad += 0 if ok else 1
    return bad


def main():
    if "--selftest" in sys.argv or "selftest" in sys.argv[1:2]:
        sys.exit(selftest())
    ap = argparse.ArgumentParser()
    ap.add_argument("pid")
    ap.add_argument("--tier", default=os.environ.get("VERIF_TIER", "quick"), choices=["quick", "thorough"])
    ap.add_argument("--replay")
    ap.add_argument("--only", default=None, help="comma separated part names (debugging)")
    a = ap.parse_args()
    if a.pid == "--selftest" or a.pid == "selftest":
        sys.exit(selftest())
    seed = int(os.environ.get("VERIF_SEED", "0") or 0)
    pid = a.pid.upper()
    ctx = Ctx(pid, a.tier, seed)
    ctx.only = set(a.only.split(",")) if a.only else None
    try:
        mod = importlib.import_module("harness.props." + pid.lower())
        if a.replay:
            rc = mod.replay(ctx, json.load(open(a.replay)))
        else:
            rc = mod.run(ctx)
        sys.exit(rc)
    except MachineryError as e:
        print("MACHINERY-FAILURE property=%s %s" % (pid, e), file=sys.stderr)
        sys.exit(2)
    except Exception:
        traceback.print_exc()
        print("MACHINERY-FAILURE property=%s unexpected exception" % pid, file=sys.stderr)
        sys.exit(2)


if __name__ == "__main__":
    main()
