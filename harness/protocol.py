"""Protocol engine: TLC generates call histories from Protocol.tla, workers replay them into the real estimators and
record observations, Trace_Protocol.tla decides each recorded history."""
import json
import os
import random
import re
import shutil
import tempfile

from . import tlc
from .common import MachineryError, pool_map

E = tlc.TLAExpr


def generate(ctx, nitems, maxbatch, maxcalls, ops, nknobs=0, simulate=None, seed=0, what="Protocol histories"):
    ops_t = E("{" + ", ".join('"%s"' % o for o in ops) + "}")
    r = tlc.run_tlc("Protocol", dict(NItems=nitems, MaxBatch=maxbatch, MaxCalls=maxcalls, NKnobs=nknobs, Ops=ops_t, EMIT=True),
                    invariants=["LifeCycle", "EmitInv"], workers=1, simulate=simulate, depth=maxcalls + 1 if simulate else None,
                    seed=seed if simulate else None, timeout=1800, heap="4g")
    ctx.add_tlc(r, what)
    ctx.tlc_violation(r, what)
    hs = [p["h"] for p in r.prints]
    seen, out = set(), []
    for h in hs:
        k = json.dumps(h, sort_keys=True)
        if k not in seen:
            seen.add(k)
            out.append(h)
    return out


def validate(ctx, recs, what):
    """recs: list of {"steps": [...]}; returns {tid: [(step, clauses)]} of violated clauses"""
    tmp = tempfile.mkdtemp(prefix="verif_tr_")
    try:
        path = os.path.join(tmp, "t.json")
        clean = []
        for r in recs:
            steps = []
            for s in r["steps"]:
                o = {k: s["o"][k] for k in ("rows", "width", "ret_self", "args_ok", "params_ok", "model_ok", "tmp_ok", "raised", "model")}
                c = {k: s["c"][k] for k in ("op", "b", "knob", "expect_ok")}
                steps.append({"c": c, "o": o})
            clean.append({"steps": steps})
        with open(path, "w") as f:
            json.dump(clean, f)
        r = tlc.run_tlc("Trace_Protocol", {}, spec="Spec", invariants=["Mark"], postcondition="Finished", workers=1,
                        env={"TRACE_FILE": path}, timeout=3000, heap="6g")
    finally:
        shutil.rmtree(tmp, ignore_errors=True)
    ctx.add_tlc(r, what)
    if r.post_failed or r.violated:
        raise MachineryError("Trace_Protocol did not finish: " + r.raw[-2000:])
    bad = {}
    for p in r.prints:
        if "clauses_tid" in p:
            bad.setdefault(int(p["clauses_tid"]), []).append((int(p["step"]), sorted(p["bad"])))
    return bad


def run_jobs(ctx, jobs, part, heavy=False, ignore=(), nontrivial=None, min_chunk=3, extra_check=None):
    """jobs: list of worker items (adapter, cfg, seed, history).  Records, validates, reports violations."""
    res = pool_map("proto", "run_history", jobs, min_chunk=min_chunk, timeout=3000)
    recs, owners = [], []
    for j, r in zip(jobs, res):
        ctx.evaluations += 1
        ident = {"part": part, "adapter": j["adapter"], "cfg": j["cfg"], "history": [[c["op"], c["b"], c["knob"]] for c in j["history"]]}
        if r is None or "crash" in r or "exc" in r:
            ctx.violation(dict(ident, kind="crash-or-exception", exc=(r or {}).get("exc")), {"job": j, "result": r})
            continue
        if "skip" in r:          # the estimator does not support the sklearn parameter protocol this history needs
            ctx.parts[part + "_not_applicable"] = ctx.parts.get(part + "_not_applicable", 0) + 1
            continue
        if j.get("cfg_in_ids"):  # the configuration in force is part of the memo key: item id + 100 * configuration
            cur = (j["cfg"] if isinstance(j["cfg"], int) else 0) + 1
            for st in r["steps"]:
                if st["c"]["op"] == "reconf":
                    cur = st["c"]["knob"]
                st["c"] = dict(st["c"], b=[x + 100 * cur for x in st["c"]["b"]])
        if j.get("idmap"):       # items that are encodings of the same abstract object share a memo key
            mp = {int(k): v for k, v in j["idmap"].items()}
            for st in r["steps"]:
                st["c"] = dict(st["c"], b=[mp.get(x, x) for x in st["c"]["b"]])
        recs.append(r)
        owners.append((j, ident))
    if not recs:
        return
    bad = validate(ctx, recs, "Trace_Protocol %s (%d histories)" % (part, len(recs)))
    for t, (j, ident) in enumerate(owners, 1):
        clauses = sorted(set(c for _, cs in bad.get(t, []) for c in cs if c not in ignore))
        if clauses:
            steps = recs[t - 1]["steps"]
            first = min(s for s, cs in bad[t] if any(c not in ignore for c in cs))
            ctx.violation(dict(ident, kind="protocol", clauses=clauses, first_step=first,
                               exc=[s["o"].get("exc") for s in steps if s["o"].get("exc")][:2]),
                          {"job": j, "recorded": recs[t - 1], "violated": bad[t]})
        elif extra_check and extra_check(j, recs[t - 1]):
            ctx.violation(dict(ident, kind="observation", what=extra_check(j, recs[t - 1])), {"job": j, "recorded": recs[t - 1]})
        else:
            ctx.traces += 1
            ctx.count(part + "_histories_accepted")
            if nontrivial is None or nontrivial(j):
                ctx.nontriv(ident)
    j, ident = owners[0]
    ctx.sample({"part": part, "adapter": j["adapter"], "cfg": str(j["cfg"])[:200], "history": ident["history"]})
