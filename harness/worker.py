"""Child process entry: python -m harness.worker <module> <func> <in.json> <out.ndjson>
Applies harness.workers.<module>.<func> to every item and appends one JSON line per item
(flushed, so that the parent knows which item killed the process)."""
import importlib
import json
import os
import sys
import traceback
import warnings

warnings.filterwarnings("ignore")


def main():
    try:  # die with the parent (a killed check must not leave compile-heavy children behind)
        import ctypes
        import signal
        ctypes.CDLL("libc.so.6").prctl(1, signal.SIGKILL)
    except Exception:
        pass
    mod, func, inp, outp = sys.argv[1:5]
    m = importlib.import_module("harness.workers." + mod)
    f = getattr(m, func)
    items = json.load(open(inp))
    with open(outp, "w") as out:
        for it in items:
            out.flush()
            os.fsync(out.fileno())
            try:
                r = f(it)
            except BaseException as e:  # noqa
                r = {"exc": type(e).__name__, "msg": str(e)[:500], "tb": traceback.format_exc()[-1500:]}
            out.write(json.dumps(r, default=_jd) + "\n")
            out.flush()


def _jd(o):
    import numpy as np
    if isinstance(o, np.integer):
        return int(o)
    if isinstance(o, np.floating):
        return float(o)
    if isinstance(o, np.ndarray):
        return o.tolist()
    if isinstance(o, (set, frozenset)):
        return sorted(o)
    return repr(o)


if __name__ == "__main__":
    main()
