"""Configurations for Ngram.tla / Skipgram.tla."""
import random

from . import tlc


def tok(**k):
    d = dict(minOcc=-1, maxOcc=-1, minDocOcc=-1, maxDocOcc=-1, excluded=(), maxUnique=-1)
    d.update(k)
    return d


def ngram_cfgs(seed, n, mask_too=False):
    rng = random.Random(seed)
    out = []
    for nn in (1, 2, 3):
        for mode in ("exact", "subgrams"):
            out.append(dict(n=nn, mode=mode, mask=False, tok=tok()))
    out.append(dict(n=2, mode="exact", mask=False, tok=tok(minOcc=2)))
    out.append(dict(n=2, mode="subgrams", mask=False, tok=tok(maxOcc=2)))
    out.append(dict(n=2, mode="exact", mask=False, tok=tok(excluded=(0,))))
    out.append(dict(n=1, mode="exact", mask=False, tok=tok(maxUnique=1)))
    out.append(dict(n=2, mode="exact", mask=False, tok=tok(minDocOcc=2)))
    while len(out) < n:
        t = {}
        if rng.random() < 0.5:
            t[rng.choice(["minOcc", "maxOcc"])] = rng.randint(1, 3)
        if rng.random() < 0.3:
            t[rng.choice(["minDocOcc", "maxDocOcc"])] = rng.randint(1, 2)
        if rng.random() < 0.3:
            t["excluded"] = rng.choice([(0,), (1,)])
        if rng.random() < 0.2:
            t["maxUnique"] = rng.randint(1, 2)
        out.append(dict(n=rng.randint(1, 3), mode=rng.choice(["exact", "subgrams"]),
                        mask=mask_too and rng.random() < 0.5, tok=tok(**t)))
    return out[:n]


def tla_ngram(c):
    t = dict(c["tok"])
    t["excluded"] = tlc.TLAExpr("{" + ", ".join(str(x) for x in c["tok"]["excluded"]) + "}")
    return dict(c, tok=t)
