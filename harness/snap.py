"""Deep snapshots of python / numpy / scipy objects and tolerant comparison (used for the side-effect,
repeatability and row-class observations of the Protocol checks)."""
import types

import numpy as np

try:
    import scipy.sparse as sp
except Exception:  # pragma: no cover
    sp = None

_SKIP = (types.FunctionType, types.BuiltinFunctionType, types.MethodType, type)


def snap(o, depth=0, seen=None):
    """A structure of tuples / copied arrays that captures the value of o."""
    if seen is None:
        seen = set()
    if depth > 6:
        return ("deep",)
    if o is None or isinstance(o, (bool, int, float, str, bytes, complex)):
        return ("v", type(o).__name__, o)
    if isinstance(o, np.generic):
        return ("v", "np", o.item())
    if isinstance(o, np.ndarray):
        if o.dtype == object:
            return ("objarr", o.shape, tuple(snap(x, depth + 1, seen) for x in o.ravel().tolist()))
        return ("nd", str(o.dtype), o.shape, o.copy())
    if sp is not None and sp.issparse(o):
        fmt = o.getformat()
        parts = {}
        for a in ("data", "indices", "indptr", "row", "col", "rows"):
            if hasattr(o, a):
                v = getattr(o, a)
                parts[a] = snap(np.asarray(v) if not (fmt == "lil") else [list(r) for r in v], depth + 1, seen)
        return ("sp", fmt, o.shape, tuple(sorted(parts.items())))
    if id(o) in seen:
        return ("cycle",)
    if isinstance(o, dict):
        seen = seen | {id(o)}
        return ("dict", tuple((repr(k), snap(v, depth + 1, seen)) for k, v in o.items()))
    if isinstance(o, (list, tuple)):
        seen = seen | {id(o)}
        return ("seq", type(o).__name__, tuple(snap(x, depth + 1, seen) for x in o))
    if isinstance(o, (set, frozenset)):
        return ("set", tuple(sorted(repr(x) for x in o)))
    if isinstance(o, _SKIP) or callable(o) and not hasattr(o, "__dict__"):
        return ("fn", getattr(o, "__name__", type(o).__name__))
    tn = type(o).__module__ + "." + type(o).__name__
    if "RandomState" in tn or "Generator" in tn:
        return ("rng",)
    if tn.startswith("numba"):
        try:
            return ("seq", "numba", tuple(snap(x, depth + 1, seen) for x in o))
        except Exception:
            return ("fn", tn)
    if tn.startswith("pandas"):
        try:
            return ("pandas", tn, repr(o)[:2000])
        except Exception:
            return ("fn", tn)
    if hasattr(o, "__dict__"):
        seen = seen | {id(o)}
        return ("obj", tn, tuple((k, snap(v, depth + 1, seen)) for k, v in sorted(vars(o).items())
                                 if not k.startswith("__")))
    return ("repr", tn, repr(o)[:200])


def same(a, b, rtol=0.0, atol=0.0):
    """structural equality of two snapshots; float arrays / floats compared with tolerance when given"""
    if type(a) != type(b):
        return False
    if isinstance(a, tuple):
        if len(a) != len(b):
            return False
        if a and a[0] == "nd":
            if a[1] != b[1] or a[2] != b[2]:
                return False
            x, y = a[3], b[3]
            if x.dtype.kind in "fc" and (rtol or atol):
                return bool(np.allclose(x, y, rtol=rtol, atol=atol, equal_nan=True))
            return bool(np.array_equal(x, y)) or (x.dtype.kind in "fc" and bool(np.array_equal(x, y, equal_nan=True)))
        if a and a[0] == "v" and isinstance(a[2], float) and isinstance(b[2], float):
            if (a[2] != a[2] and b[2] != b[2]) or a[2] == b[2]:
                return True
            return abs(a[2] - b[2]) <= atol + rtol * abs(b[2])
        return all(same(x, y, rtol, atol) for x, y in zip(a, b))
    if isinstance(a, np.ndarray):
        return bool(np.array_equal(a, b))
    return a == b


def row_vector(r):
    """a comparable form of one output row"""
    if sp is not None and sp.issparse(r):
        return np.asarray(r.todense(), dtype=np.float64).ravel()
    if isinstance(r, np.ndarray):
        if r.dtype.kind in "OUS":
            return ("exact", repr(r.tolist()))
        return r.astype(np.float64).ravel()
    if isinstance(r, (list, tuple)):
        try:
            a = np.asarray(r, dtype=np.float64)
            return a.ravel()
        except Exception:
            return ("exact", repr(r))
    return ("exact", repr(r))


class Classes:
    """class ids by tolerant equality; classes can only merge (first match wins), never split"""

    def __init__(self, rtol=1e-7, atol=1e-9):
        self.reps, self.rtol, self.atol = [], rtol, atol

    def cid(self, v):
        for i, r in enumerate(self.reps):
            if isinstance(v, tuple) or isinstance(r, tuple):
                if isinstance(v, tuple) and isinstance(r, tuple) and v == r:
                    return i + 1
                continue
            if v.shape == r.shape and np.allclose(v, r, rtol=self.rtol, atol=self.atol, equal_nan=True):
                return i + 1
        self.reps.append(v)
        return len(self.reps)


class SnapClasses:
    def __init__(self, rtol=1e-9, atol=1e-9):
        self.reps, self.rtol, self.atol = [], rtol, atol

    def cid(self, s):
        for i, r in enumerate(self.reps):
            if same(s, r, self.rtol, self.atol):
                return i + 1
        self.reps.append(s)
        return len(self.reps)
