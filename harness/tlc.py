"""Run TLC on the specifications under /verif/specs and parse what it reports.

Every run happens in a fresh scratch directory (a copy of /verif/specs plus a generated
MC_<tag>.tla / .cfg pair), removed afterwards.  Constants are rendered as TLA+
expressions inside the generated wrapper module (`CONSTANT X <- const_X`), so any value
(negative numbers, records, sequences) can be passed.

Returned TLCResult fields: generated / distinct states, printed JSON objects (from
`PrintT(ToJson(..))`), names of violated invariants/properties, raw output.
"""
import json
import os
import re
import shutil
import subprocess
import tempfile
import time

ROOT = os.path.dirname(os.path.dirname(os.path.abspath(__file__)))
SPECS = os.path.join(ROOT, "specs")
JAR = "/opt/veriftools/tla/tla2tools.jar:/opt/veriftools/tla/CommunityModules-deps.jar"


class TLCError(RuntimeError):
    pass


def tla(v):
    """Render a python value as a TLA+ expression."""
    if isinstance(v, TLAExpr):
        return v.text
    if isinstance(v, bool):
        return "TRUE" if v else "FALSE"
    if isinstance(v, int):
        return str(v) if v >= 0 else "(-%d)" % (-v)
    if isinstance(v, str):
        return '"%s"' % v.replace("\\", "\\\\").replace('"', '\\"')
    if isinstance(v, (list, tuple)):
        return "<<" + ", ".join(tla(x) for x in v) + ">>"
    if isinstance(v, (set, frozenset)):
        return "{" + ", ".join(sorted(tla(x) for x in v)) + "}"
    if isinstance(v, dict):
        if not v:
            return "<<>>"
        if all(isinstance(k, str) and re.fullmatch(r"[A-Za-z_][A-Za-z0-9_]*", k) for k in v):
            return "[" + ", ".join("%s |-> %s" % (k, tla(x)) for k, x in v.items()) + "]"
        return "(" + " @@ ".join("(%s :> %s)" % (tla(k), tla(x)) for k, x in v.items()) + ")"
    raise TypeError("cannot render %r as TLA+" % (v,))


class TLAExpr:
    """A literal TLA+ expression (passed through unquoted)."""

    def __init__(self, text):
        self.text = text


class TLCResult:
    def __init__(self):
        self.generated = 0
        self.distinct = 0
        self.queue = 0
        self.depth = 0
        self.prints = []
        self.violated = []
        self.errors = []
        self.raw = ""
        self.wall = 0.0
        self.rc = None
        self.cmd = ""
        self.coverage = {}
        self.post_failed = False

    @property
    def ok(self):
        return not self.violated and not self.errors and not self.post_failed


_STATES_RE = re.compile(r"(\d+) states generated, (\d+) distinct states found, (\d+) states left on queue")
_SIM_RE = re.compile(r"The number of states generated: (\d+)")
_DEPTH_RE = re.compile(r"The depth of the complete state graph search is (\d+)")
_INV_RE = re.compile(r"Error: Invariant (\S+) is violated")
_PROP_RE = re.compile(r"Error: Action property (\S+) is violated|Error: Temporal properties were violated")


def parse_output(out, res):
    for line in out.splitlines():
        s = line.strip()
        if s.startswith('"') and s.endswith('"') and len(s) > 2 and s[1] in "{[":
            try:
                res.prints.append(json.loads(json.loads(s)))
                continue
            except Exception:
                pass
        m = _STATES_RE.search(s)
        if m:
            res.generated, res.distinct, res.queue = int(m.group(1)), int(m.group(2)), int(m.group(3))
        m = _SIM_RE.search(s)
        if m:
            res.generated = max(res.generated, int(m.group(1)))
        m = _DEPTH_RE.search(s)
        if m:
            res.depth = int(m.group(1))
        m = _INV_RE.search(s)
        if m:
            res.violated.append(m.group(1))
        m = _PROP_RE.search(s)
        if m:
            res.violated.append(m.group(1) or "TemporalProperty")
        if "Error: Deadlock reached" in s:
            res.violated.append("Deadlock")
        if s.startswith("Error:") and "is violated" not in s and "Deadlock" not in s \
                and "The behavior up to this point" not in s and "Temporal properties were violated" not in s:
            if "Postcondition" in s or "POSTCONDITION" in s.upper():
                res.post_failed = True
            else:
                res.errors.append(s)
        if "Assumption" in s and "is false" in s:
            res.errors.append(s)
    return res


def run_tlc(module, constants=None, *, init="Init", next_="Next", spec=None, invariants=(),
            properties=(), constraints=(), action_constraints=(), postcondition=None, view=None,
            deadlock=False, workers=1, simulate=None, depth=None, seed=None, env=None,
            timeout=3600, coverage=False, extra_defs="", extends=(), keep=False, tag=None,
            dfs=False, heap="4g", extra_args=()):
    """Model-check (or simulate) `module`.  `constants` maps constant names to python values."""
    constants = constants or {}
    tag = tag or ("MC_" + module)
    tmp = tempfile.mkdtemp(prefix="verif_tlc_")
    res = TLCResult()
    try:
        for f in os.listdir(SPECS):
            if f.endswith(".tla"):
                shutil.copy(os.path.join(SPECS, f), tmp)
        lines = ["---- MODULE %s ----" % tag,
                 "EXTENDS %s" % ", ".join([module] + list(extends))]
        cfg = []
        for k, v in constants.items():
            lines.append("const_%s == %s" % (k, tla(v)))
            cfg.append("CONSTANT %s <- const_%s" % (k, k))
        if extra_defs:
            lines.append(extra_defs)
        lines.append("====")
        if spec:
            cfg.append("SPECIFICATION %s" % spec)
        else:
            cfg.append("INIT %s" % init)
            cfg.append("NEXT %s" % next_)
        for i in invariants:
            cfg.append("INVARIANT %s" % i)
        for p in properties:
            cfg.append("PROPERTY %s" % p)
        for c in constraints:
            cfg.append("CONSTRAINT %s" % c)
        for c in action_constraints:
            cfg.append("ACTION_CONSTRAINT %s" % c)
        if postcondition:
            cfg.append("POSTCONDITION %s" % postcondition)
        if view:
            cfg.append("VIEW %s" % view)
        cfg.append("CHECK_DEADLOCK %s" % ("TRUE" if deadlock else "FALSE"))
        with open(os.path.join(tmp, tag + ".tla"), "w") as f:
            f.write("\n".join(lines) + "\n")
        with open(os.path.join(tmp, tag + ".cfg"), "w") as f:
            f.write("\n".join(cfg) + "\n")
        jopts = ["-XX:+UseParallelGC", "-Xmx" + heap, "-Xss512m"]
        if dfs:
            jopts.append("-Dtlc2.tool.queue.IStateQueue=StateDeque")
        cmd = ["java"] + jopts + ["-cp", JAR, "tlc2.TLC", "-workers", str(workers),
                                  "-metadir", os.path.join(tmp, "meta"), "-noGenerateSpecTE",
                                  "-config", tag + ".cfg"]
        if simulate:
            cmd += ["-simulate", simulate]
        if depth:
            cmd += ["-depth", str(depth)]
        if seed is not None:
            cmd += ["-seed", str(seed)]
        if coverage:
            cmd += ["-coverage", "1"]
        cmd += list(extra_args)
        cmd.append(tag + ".tla")
        e = dict(os.environ)
        e.pop("JAVA_TOOL_OPTIONS", None)
        if env:
            e.update({k: str(v) for k, v in env.items()})
        t0 = time.time()
        if os.path.exists("/usr/bin/setpriv"):      # TLC must not outlive a check that is killed (e.g. by an outer `timeout`)
            cmd = ["/usr/bin/setpriv", "--pdeathsig", "KILL"] + list(cmd)
        try:
            p = subprocess.run(cmd, cwd=tmp, env=e, stdout=subprocess.PIPE, stderr=subprocess.STDOUT,
                               timeout=timeout, text=True, errors="replace")
            res.rc = p.returncode
            res.raw = p.stdout
        except subprocess.TimeoutExpired as ex:
            res.rc = -9
            res.raw = (ex.stdout or b"").decode("utf8", "replace") if isinstance(ex.stdout, bytes) else (ex.stdout or "")
            if not simulate:
                res.errors.append("TLC timeout after %ss" % timeout)
        res.wall = time.time() - t0
        res.cmd = " ".join(cmd)
        parse_output(res.raw, res)
        if res.rc not in (0, -9) and not res.violated and not res.errors and not res.post_failed:
            res.errors.append("TLC exit status %s" % res.rc)
        if coverage:
            for m in re.finditer(r"<(\w+) line (\d+), col \d+ to line \d+, col \d+ of module (\w+)>: (\d+):(\d+)", res.raw):
                res.coverage[m.group(1)] = res.coverage.get(m.group(1), 0) + int(m.group(5))
        return res
    finally:
        if keep:
            res.tmp = tmp
        else:
            shutil.rmtree(tmp, ignore_errors=True)


def sany(path):
    p = subprocess.run(["java", "-cp", JAR, "tla2sany.SANY", os.path.basename(path)],
                       cwd=os.path.dirname(path), stdout=subprocess.PIPE, stderr=subprocess.STDOUT, text=True)
    bad = p.returncode != 0 or "*** Errors" in p.stdout or "Fatal errors" in p.stdout or "Could not find module" in p.stdout
    return (not bad), p.stdout
