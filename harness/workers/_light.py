"""Import submodules of /repo/vectorizers without executing vectorizers/__init__.py (which pulls in
pynndescent and costs ~10 s per process).  The stub package has the real __path__, so
`import vectorizers.coo_utils` and the relative imports between submodules work unchanged and
every byte of code still comes from /repo's working tree."""
import os
import sys
import types
import warnings

warnings.filterwarnings("ignore")
REPO = os.environ.get("VERIF_REPO", "/repo")


def light():
    if "vectorizers" in sys.modules:
        return
    pkg = types.ModuleType("vectorizers")
    pkg.__path__ = [os.path.join(REPO, "vectorizers")]
    pkg.__file__ = os.path.join(REPO, "vectorizers", "__init__.py")
    sys.modules["vectorizers"] = pkg
    tr = types.ModuleType("vectorizers.transformers")
    tr.__path__ = [os.path.join(REPO, "vectorizers", "transformers")]
    tr.__file__ = os.path.join(REPO, "vectorizers", "transformers", "__init__.py")
    sys.modules["vectorizers.transformers"] = tr
    pkg.transformers = tr
