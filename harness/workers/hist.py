"""Replays Histogram.tla instances into HistogramVectorizer."""
import numpy as np

NEG, POS = -1000000, 1000000


def fl(v):
    return -np.inf if v == NEG else (np.inf if v == POS else float(v))


def run(item):
    import warnings
    warnings.filterwarnings("ignore")
    from vectorizers import HistogramVectorizer
    t = item["inst"]
    fails = []
    for fmt in ("list", "array"):
        conv = (lambda s: list(map(float, s))) if fmt == "list" else (lambda s: np.array(s, dtype=np.float64))
        train, test = [conv(s) for s in t["train"]], [conv(s) for s in t["test"]]
        m = HistogramVectorizer(n_components=t["n"], strategy=t["strategy"], absolute_range=(fl(t["lo"]), fl(t["hi"])),
                                append_outlier_bins=bool(t["outlier"]))
        try:
            if fmt == "array":          # this object has a past: fitted on other data and used, then re-fitted
                try:                    # (a past the configuration rejects - e.g. nothing inside the absolute range - is no past)
                    past = [[float(v) + 0.25 for v in s][::-1] + [float(v) * 0.5 + 1.0 for v in s] for s in t["train"] + t["test"]]
                    m.fit(past)
                    m.transform(past[:1] + [[]])
                except Exception:  # noqa
                    pass
            r = m.fit(train)
            if r is not m:
                fails.append({"what": "fit does not return self"})
            bins = [[float(i.left), float(i.right)] for i in m.bin_intervals_]
            closed = set(i.closed for i in m.bin_intervals_)
            exp_bins = [[fl(a), fl(b)] for a, b in item["bins"]]
            if bins != exp_bins or closed != {"right"}:
                fails.append({"what": "bins", "fmt": fmt, "got": bins, "expected": exp_bins, "closed": sorted(closed)})
                continue
            for nm, data, exp in (("transform(X')", test, item["rows"]), ("transform(X)", train, item["trainrows"])):
                T = np.asarray(m.transform(data))
                if T.shape != (len(data), len(exp_bins)):
                    fails.append({"what": nm + " shape", "got": list(T.shape)})
                elif T.tolist() != [[float(v) for v in row] for row in exp]:
                    fails.append({"what": nm + " counts", "fmt": fmt, "got": T.tolist(), "expected": exp})
            F = np.asarray(HistogramVectorizer(n_components=t["n"], strategy=t["strategy"],
                                               absolute_range=(fl(t["lo"]), fl(t["hi"])),
                                               append_outlier_bins=bool(t["outlier"])).fit_transform(train))
            if F.tolist() != [[float(v) for v in row] for row in item["trainrows"]]:
                fails.append({"what": "fit_transform counts", "got": F.tolist(), "expected": item["trainrows"]})
        except Exception as e:  # noqa
            fails.append({"what": "raised", "fmt": fmt, "exc": type(e).__name__ + ": " + str(e)[:200]})
    return {"ok": not fails, "fails": fails[:3]}
