"""Replays EMStep.tla instances into the real EM iteration (TokenCooccurrenceVectorizer._em_cooccurrence_iteration)."""
from fractions import Fraction

import numpy as np
import scipy.sparse as sp

from ._light import light
from ..cooc_cfg import TOKS


def step(item):
    light()
    import numba
    from vectorizers.token_cooccurrence_vectorizer import TokenCooccurrenceVectorizer as C
    V, R = item["V"], item["R"]
    doc = [t for t in item["doc"]]
    m = C(token_dictionary={TOKS[i]: i for i in range(V)}, window_radii=R, window_orientations="directional",
          kernel_functions="flat", normalize_windows=True, n_iter=0)
    m.fit([[TOKS[t] for t in range(V)] * 2])          # sets the window tables for the full vocabulary
    P = np.zeros((V, 2 * V))
    for r in range(V):
        for b in range(2):
            for c in range(V):
                P[r, b * V + c] = item["prior"][r][b][c] / 4.0
    prior = sp.csr_matrix(P)
    prior.eliminate_zeros()
    prior.sort_indices()
    seqs = numba.typed.List([np.array(doc, dtype=np.int32)])
    post = m._em_cooccurrence_iteration(token_sequences=seqs, cooccurrence_matrix=prior)
    out = sp.csr_matrix((np.asarray(post, dtype=np.float64), prior.indices.copy(), prior.indptr.copy()), shape=prior.shape).toarray()
    bad = []
    for r in range(V):
        for b in range(2):
            for c in range(V):
                e = float(sum(Fraction(n, z) for z, n in item["post"][r][b][c]))
                g = float(out[r, b * V + c])
                if not np.isfinite(g) or abs(e - g) > 1e-5 + 1e-5 * abs(e):
                    bad.append([r, b, c, e, g])
    return {"ok": not bad, "bad": bad[:6]}


def pipeline(item):
    """n_iter / epsilon pipeline on a corpus: returns the matrices after 0..n_iter iterations (runs with n_iter = k) in
    fixed point together with the kept vocabulary, for Trace_EM.tla; item = {family, corpus, V, n_iter, eps, extra}"""
    from .cooc import _cls, build_X
    C = _cls(item["family"])
    V = item["V"]
    X = build_X(item)
    mats, codes = [], []
    for k in range(item["n_iter"] + 1):
        wins = item.get("wins") or [{"orient": "directional", "r": item.get("r", 2), "mix": 1}]
        kw = dict(token_dictionary={TOKS[i]: i for i in range(V)}, window_radii=[w["r"] for w in wins],
                  window_orientations=[w["orient"] for w in wins], mix_weights=[float(w["mix"]) for w in wins],
                  n_iter=k, epsilon=item["eps"], normalize_windows=item.get("wnorm", True))
        kern = item.get("kernel", "flat")
        ka = {"power": 0.5} if kern == "geometric" else {}
        if item["family"] == "timed" and kern != "flat":
            ka["delta"] = 1.0
        if len(wins) > 1 or kern != "flat":
            kw["kernel_functions"] = [kern] * len(wins)
            kw["kernel_args"] = [dict(ka) for _ in wins]
            kw["window_functions"] = ["fixed"] * len(wins)
        if item["family"] == "ngram":
            kw.pop("token_dictionary")
            kw["ngram_size"] = 2
        kw.update(item.get("extra") or {})
        mdl = C(**kw)
        S = mdl.fit_transform(X).tocsr()
        S.eliminate_zeros()
        M = S.toarray().astype(np.float64)
        mats.append(M)
        # cell codes for Trace_EMChain: 0 = absent, q + 1 = present with q = floor(v * unit)
        unit = 10 ** 4 if (k == 0 and item["eps"] == 0) else 10 ** 6
        codes.append([[0 if v == 0 else int(np.floor(v * unit)) + 1 for v in row] for row in M])
    extra = {}
    if item["family"] == "ngram":
        # the corpus and the row n-grams in the fitted model's own token indices (Trace_EMChain family "ngram")
        tl = mdl.token_label_dictionary_
        rows = sorted(mdl.ngram_label_dictionary_.items(), key=lambda kv: kv[1])
        extra = {"ng_corpus": [[int(tl[TOKS[t]]) for t in d] for d in item["corpus"]],
                 "ng_grams": [[int(tl[t]) for t in (g.split("_") if isinstance(g, str) else g)] for g, _ in rows], "ng_V": len(tl)}
    FX = 10 ** 6
    return {"extra": extra, "codes": codes, "mats": [[[int(round(v * FX)) for v in row] for row in M] for M in mats],
            "finite": bool(all(np.all(np.isfinite(M)) for M in mats)), "shape": list(mats[0].shape)}
