"""Replays Tree.tla instances into LabelledTreeCooccurrenceVectorizer (and path graphs into TokenCooccurrenceVectorizer)."""
import numpy as np
import scipy.sparse as sp

from ._light import light
from ..cooc_cfg import TOKS

MASK_STRING = "[M]"


def build(t):
    out = []
    for tr in t["trees"]:
        n = len(tr["par"])
        # the adjacency matrix may arrive with any numeric dtype (networkx / scipy give integers, booleans are common too)
        A = sp.lil_matrix((n, n), dtype={"float": np.float64, "int": np.int64, "bool": np.bool_, "float32": np.float32}[t.get("adj", "float")])
        for v, p in enumerate(tr["par"]):
            if p > 0:
                A[p - 1, v] = 1
        out.append((A.asformat(t.get("fmt", "csr")), np.array([TOKS[l] for l in tr["lab"]])))
    return out


def run(item):
    light()
    from vectorizers.tree_token_cooccurrence import LabelledTreeCooccurrenceVectorizer as C
    t, V = item["inst"], item["V"]
    kw = dict(window_radius=t["r"], kernel_function=t["kernel"], window_orientation=t["orient"])
    ka = {}
    if t.get("knorm"):
        ka["normalize"] = True
    if t.get("offset"):
        ka["offset"] = int(t["offset"])
    if t["kernel"] == "geometric":
        ka["power"] = 0.5
    if ka:
        kw["kernel_args"] = ka
    if t["excluded"]:
        kw["ignored_tokens"] = set(TOKS[i] for i in t["excluded"])
    if t["mask"]:
        kw["mask_string"] = MASK_STRING
        if t["nullify"]:
            kw["nullify_mask"] = True
    X = build(t)
    den = float(item["den"])

    def nm(l):
        return MASK_STRING if l == V else TOKS[l]
    exp = {(nm(c["r"]), c["blk"] + nm(c["c"])): c["v"] / den for c in item["cells"]}
    fails = []

    def obs(m, M):
        M = M.tocoo()
        ri, ci = m.token_index_dictionary_, m.column_index_dictionary_
        got = {}
        for r, c, v in zip(M.row, M.col, M.data):
            if v != 0:
                got[(str(ri[int(r)]), str(ci[int(c)]))] = got.get((str(ri[int(r)]), str(ci[int(c)])), 0.0) + float(v)
        return got

    def cmp(where, got):
        bad = [[list(k), exp.get(k, 0.0), got.get(k, 0.0)] for k in set(exp) | set(got)
               if abs(exp.get(k, 0.0) - got.get(k, 0.0)) > 1e-6 + 1e-6 * abs(exp.get(k, 0.0))]
        if bad:
            fails.append({"what": where, "bad": sorted(bad)[:6]})
    try:
        m = C(**kw)
        M = m.fit_transform(X)
        cmp("fit_transform", obs(m, M))
        d = m.token_label_dictionary_
        if t["mask"] and (d.get(MASK_STRING) != len(d) - 1):
            fails.append({"what": "mask entry", "got": {str(k): int(v) for k, v in d.items()}})
        nlab = len(d)
        want_shape = (nlab, nlab * (2 if t["orient"] == "directional" else 1))
        if M.shape != want_shape:
            fails.append({"what": "shape", "got": list(M.shape), "expected": list(want_shape)})
        m2 = C(**kw)
        if len(t["trees"]) == 1:        # this object has a past: fitted on another tree and used, then re-fitted
            try:
                P = build({"trees": [{"par": [0, 1, 1, 3], "lab": [1, 0, 1, 2]}], "adj": "float"})
                m2.fit(P)
                m2.transform(P)
            except Exception:  # noqa
                pass
        if m2.fit(X) is not m2:
            fails.append({"what": "fit does not return self"})
        T = m2.transform(X)
        cmp("fit.transform", obs(m2, T))
        if T.shape != want_shape:
            fails.append({"what": "transform shape", "got": list(T.shape)})
    except ValueError as e:
        if "empty" in str(e).lower() and not exp:
            return {"ok": True, "precondition": "empty vocabulary"}
        fails.append({"what": "raised", "exc": "ValueError: " + str(e)[:200]})
    except Exception as e:  # noqa
        fails.append({"what": "raised", "exc": type(e).__name__ + ": " + str(e)[:200]})
    # path graphs: the token co-occurrence vectorizer on the label sequences must give the same cells
    if item.get("path") and t["orient"] in ("after", "before", "directional") and not fails and not t.get("knorm"):
        try:
            from vectorizers.token_cooccurrence_vectorizer import TokenCooccurrenceVectorizer as TC
            ka = {"power": 0.5} if t["kernel"] == "geometric" else {}
            if t.get("offset"):
                ka["offset"] = int(t["offset"])
            tk = dict(window_radii=t["r"], kernel_functions=t["kernel"], kernel_args=ka, window_orientations=t["orient"],
                      normalize_windows=False)
            if t["excluded"]:
                tk["excluded_tokens"] = set(TOKS[i] for i in t["excluded"])
            if t["mask"]:
                tk["mask_string"] = MASK_STRING
                tk["nullify_mask"] = bool(t["nullify"])
            seqs = [[TOKS[l] for l in tr["lab"]] for tr in t["trees"]]
            tm = TC(**tk)
            S = tm.fit_transform(seqs).tocoo()
            got = {}
            for r, c, v in zip(S.row, S.col, S.data):
                if v != 0:
                    col = str(tm.column_index_dictionary_[int(c)])
                    col = col.replace("pre_0_", "pre_").replace("post_0_", "post_") if t["orient"] == "directional" else col.split("_", 2)[2]
                    got[(str(tm.token_index_dictionary_[int(r)]), col)] = float(v)
            cmp("TokenCooccurrenceVectorizer on the path's label sequence", got)
        except Exception as e:  # noqa
            fails.append({"what": "token vectorizer raised", "exc": type(e).__name__ + ": " + str(e)[:200]})
    return {"ok": not fails, "fails": fails[:4]}
