"""Calls the real transport_plan on TLC-enumerated instances (S->C) and records instances + dual
potentials for Trace_Transport.tla (C->S)."""
import numpy as np

_m = {}


def _tp():
    if not _m:
        # linear_optimal_transport needs pynndescent: import the real package
        import vectorizers.linear_optimal_transport as lot
        import os
        assert os.path.realpath(lot.__file__).startswith(os.path.realpath(os.environ.get("VERIF_REPO", "/repo")))
        _m["tp"] = lot.transport_plan
    return _m["tp"]


def check_plan(P, p, q, cost):
    out = {}
    if not np.all(np.isfinite(P)):
        out["nonfinite"] = True
        return out
    if P.shape != cost.shape:
        out["shape"] = list(P.shape)
        return out
    if P.min() < -1e-12:
        out["negative"] = float(P.min())
    r = float(np.abs(P.sum(axis=1) - p).max())
    c = float(np.abs(P.sum(axis=0) - q).max())
    if r > 1e-9:
        out["row_marginal_err"] = r
    if c > 1e-9:
        out["col_marginal_err"] = c
    return out


def run(item):
    """item: {a, b, c, opt} integers; total mass T = sum(a)"""
    tp = _tp()
    a, b = np.array(item["a"], dtype=np.float64), np.array(item["b"], dtype=np.float64)
    T = a.sum()
    p, q = a / T, b / T
    cost = np.array(item["c"], dtype=np.float64)
    fails = []
    for layout in ("C", "F"):
        cm = np.ascontiguousarray(cost) if layout == "C" else np.ascontiguousarray(cost.T).T
        try:
            P = tp(p, q, cm)
        except Exception as e:  # noqa
            fails.append({"layout": layout, "exc": type(e).__name__ + ": " + str(e)[:200]})
            continue
        bad = check_plan(P, p, q, cost)
        val = float((P * cost).sum()) * T
        if abs(val - item["opt"]) > 1e-7 * max(1.0, abs(item["opt"])):
            bad["cost"] = val
            bad["opt"] = item["opt"]
        if bad:
            bad["layout"] = layout
            fails.append(bad)
    return {"ok": not fails, "fails": fails}


def record(item):
    """item: {n, m, T, C, seed, div}; random integer instance solved by the real code; duals from HiGHS."""
    from scipy.optimize import linprog
    import scipy.sparse as sp
    tp = _tp()
    rng = np.random.RandomState(item["seed"])
    n, m, T = item["n"], item["m"], item["T"]

    def masses(k):
        style = item.get("style", "uniform")
        if style == "unbalanced":
            w = rng.dirichlet(np.full(k, 0.15))
        else:
            w = rng.dirichlet(np.ones(k))
        x = np.floor(w * T).astype(np.int64)
        if item.get("zeros") and k > 2:
            x[rng.randint(k)] = 0
        x[np.argmax(x)] += T - x.sum()
        return x
    a, b = masses(n), masses(m)
    c = rng.randint(0, item["C"] + 1, size=(n, m)).astype(np.int64)
    if item.get("ties"):
        c = (c // 3) * 3
    div = float(item.get("div", 1))
    p, q = a / float(T), b / float(T)
    cost = c / div
    out = {"a": a.tolist(), "b": b.tolist(), "c": c.tolist(), "n": n, "m": m, "T": T, "div": div}
    try:
        P = tp(p, q, np.ascontiguousarray(cost))
    except Exception as e:  # noqa
        out["exc"] = type(e).__name__ + ": " + str(e)[:200]
        return out
    out["bad"] = check_plan(P, p, q, cost)
    out["cost_T"] = float((P * c).sum()) * T          # in units of (mass unit * integer cost)
    PT = P * T
    R = np.rint(PT)
    out["integral"] = bool(np.abs(PT - R).max() < 1e-6)
    if out["integral"] and n * m <= 4000:
        out["P"] = R.astype(np.int64).tolist()
    # independent dual solution
    A = sp.vstack([sp.kron(sp.eye(n), np.ones((1, m))), sp.kron(np.ones((1, n)), sp.eye(m))]).tocsr()
    res = linprog(c.ravel().astype(float), A_eq=A, b_eq=np.concatenate([a, b]).astype(float), bounds=(0, None), method="highs")
    if res.status != 0:
        out["lp_status"] = int(res.status)
        return out
    y = np.asarray(res.eqlin.marginals)
    u, v = y[:n], y[n:]
    shift = v.min()
    u, v = u + shift, v - shift
    ui, vi = np.rint(u).astype(np.int64), np.rint(v).astype(np.int64)
    if np.abs(u - ui).max() > 1e-6 or np.abs(v - vi).max() > 1e-6:
        # non-integral duals: floor them - still dual feasible after the check in TLC, possibly a weaker bound
        ui, vi = np.floor(u + 1e-9).astype(np.int64), np.floor(v + 1e-9).astype(np.int64)
    out["u"], out["v"] = ui.tolist(), vi.tolist()
    out["lp_opt"] = float(res.fun)
    return out
