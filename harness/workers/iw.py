"""Replays InfoWeight.tla instances into vectorizers.transformers.info_weight."""
import math

import numpy as np
import scipy.sparse as sp

from ._light import light

_m = {}


def mod():
    light()
    if not _m:
        import vectorizers.transformers.info_weight as iw
        _m["iw"] = iw
    return _m["iw"]


def dyadic(item):
    iw = mod()
    M = np.array([item["x"], item["y"]], dtype=np.float64).T
    want = math.log(2.0) * item["w"][0] / item["w"][1]
    fails = []
    for fmt in ("csc", "csr", "coo", "dense"):
        A = {"csc": sp.csc_matrix, "csr": sp.csr_matrix, "coo": sp.coo_matrix, "dense": lambda z: sp.csc_matrix(z)}[fmt](M)
        w = iw.information_weight(A, prior_strength=float(item["s"]), approximate_prior=False)
        if not np.all(np.isfinite(w)) or abs(w[0] - want) > 1e-9 * max(1.0, abs(want)) + 1e-12:
            fails.append({"fmt": fmt, "got": float(w[0]), "expected": want})
        if w.min() < -1e-12:
            fails.append({"fmt": fmt, "negative": float(w.min())})
    return {"ok": not fails, "fails": fails[:3]}


def build(enc, nr, nc, fmt, perm_r=None, perm_c=None):
    r = np.array([t[0] - 1 for t in enc], dtype=np.int32)
    c = np.array([t[1] - 1 for t in enc], dtype=np.int32)
    v = np.array([t[2] for t in enc], dtype=np.float64)
    if perm_r is not None:
        r = np.array([perm_r[i] for i in r], dtype=np.int32)
    if perm_c is not None:
        c = np.array([perm_c[i] for i in c], dtype=np.int32)
    coo = sp.coo_matrix((v, (r, c)), shape=(nr, nc))
    if fmt == "coo":
        return coo                        # duplicates and explicit zeros kept as listed
    if fmt == "csr":
        return coo.tocsr()
    if fmt == "csc":
        return coo.tocsc()
    if fmt == "csc_unsorted":
        A = coo.tocsc()
        for j in range(nc):
            a, b = A.indptr[j], A.indptr[j + 1]
            A.indices[a:b] = A.indices[a:b][::-1].copy()
            A.data[a:b] = A.data[a:b][::-1].copy()
        A.has_sorted_indices = False
        return A
    if fmt == "lil":
        return coo.tolil()
    return sp.csc_matrix(coo.toarray())


def encodings(item):
    """item: {encs: [list of triples], nr, nc}: all encodings of one abstract matrix"""
    iw = mod()
    nr, nc = item["nr"], item["nc"]
    fails = []
    ref = {}
    for ps, approx in ((0.1, False), (1.0, False), (1e-4, True)):
        for e in item["encs"]:
            for fmt in item["fmts"]:
                try:
                    w = iw.information_weight(build(e, nr, nc, fmt), prior_strength=ps, approximate_prior=approx)
                except Exception as ex:  # noqa
                    fails.append({"what": "raised", "fmt": fmt, "enc": e, "exc": type(ex).__name__ + ": " + str(ex)[:150]})
                    continue
                key = (ps, approx)
                if not np.all(np.isfinite(w)):
                    fails.append({"what": "non-finite weight", "fmt": fmt, "enc": e})
                elif not approx and w.min() < -1e-12:
                    fails.append({"what": "negative exact-prior weight", "fmt": fmt, "enc": e, "min": float(w.min())})
                elif key not in ref:
                    ref[key] = w
                elif approx:
                    pass        # the approximate prior estimates the zero-count term from the number of STORED entries: explicit
                                # zeros legitimately change it a little; encoding independence is claimed for the exact prior only
                elif not np.allclose(w, ref[key], rtol=1e-9, atol=1e-12):
                    fails.append({"what": "weights depend on the encoding", "fmt": fmt, "enc": e, "got": w.tolist(), "ref": ref[key].tolist(),
                                  "approx": approx})
        # permutations of the first encoding
        e0 = item["encs"][0]
        pr, pc = item["perm_r"], item["perm_c"]
        key = (ps, approx)
        if key in ref:
            w1 = iw.information_weight(build(e0, nr, nc, "csr", perm_r=pr), prior_strength=ps, approximate_prior=approx)
            if not np.allclose(w1, ref[key], rtol=1e-9, atol=1e-12):
                fails.append({"what": "weights change under row permutation", "got": w1.tolist(), "ref": ref[key].tolist(), "approx": approx})
            w2 = iw.information_weight(build(e0, nr, nc, "csr", perm_c=pc), prior_strength=ps, approximate_prior=approx)
            want = np.zeros(nc)
            for j in range(nc):
                want[pc[j]] = ref[key][j]
            if not np.allclose(w2, want, rtol=1e-9, atol=1e-12):
                fails.append({"what": "weights do not permute with the columns", "got": w2.tolist(), "expected": want.tolist()})
    return {"ok": not fails, "fails": fails[:4]}


def scaling(item):
    """transform is the column scaling X -> X diag(w): linear, support preserving, w >= 0"""
    iw = mod()
    rng = np.random.RandomState(item["seed"])
    if item.get("matrix"):          # a hand-made matrix (columns whose raw weight is 0 or slightly negative) with its own settings
        M = sp.csr_matrix(np.array(item["matrix"], dtype=np.float64))
        nr, nc = M.shape
        kws = item["kws"]
    else:
        nr, nc = item["nr"], item["nc"]
        M = build(item["enc"], nr, nc, "csr")
        kws = (dict(), dict(approx_prior=False, weight_power=1.0, prior_strength=0.5), dict(weight_power=2.0, prior_strength=1.0))
    fails = []
    y = item.get("y")
    for kw in kws:
        t = iw.InformationWeightTransformer(**kw)
        r = t.fit(M, y=y) if y is not None else t.fit(M)
        if r is not t:
            fails.append({"what": "fit does not return self"})
        w = np.asarray(t.information_weights_)
        if not np.all(np.isfinite(w)) or w.min() < 0:
            fails.append({"what": "weights not finite / negative", "w": w.tolist()})
            continue
        X = sp.csr_matrix(rng.randint(0, 4, size=(4, nc)).astype(np.float64))
        Y = sp.csr_matrix(rng.randint(0, 3, size=(4, nc)).astype(np.float64))
        TX, TY, TXY, T3X = (np.asarray(t.transform(A).todense()) for A in (X, Y, X + Y, 3 * X))
        if not np.allclose(TX, np.asarray(X.todense()) * w[None, :], rtol=1e-12, atol=1e-12):
            fails.append({"what": "transform is not X diag(w)"})
        if not np.allclose(TXY, TX + TY, rtol=1e-12, atol=1e-12) or not np.allclose(T3X, 3 * TX, rtol=1e-12, atol=1e-12):
            fails.append({"what": "transform is not linear"})
        if np.any((TX != 0) & (np.asarray(X.todense()) == 0)):
            fails.append({"what": "transform created a non-zero"})
        D = np.asarray(t.transform(X.toarray()))
        if not np.allclose(D, TX):
            fails.append({"what": "dense input gives a different result"})
    return {"ok": not fails, "fails": fails[:3]}
