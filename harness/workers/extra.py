"""Behaviour outside the listed properties: CategoricalColumnTransformer, variable window radii, sparse_collapse."""
import numpy as np

from ._light import light


def categorical(item):
    light()
    import pandas as pd
    from vectorizers.transformers.categorical_columns import CategoricalColumnTransformer
    t = item["table"]
    ncols = len(t[0]) - 1
    cols = ["c%d" % (i + 1) for i in range(ncols)]
    df = pd.DataFrame([["o%d" % r[0]] + [(None if v == -1 else "v%d" % v) for v in r[1:]] for r in t], columns=["obj"] + cols)
    tr = CategoricalColumnTransformer("obj", cols if ncols > 1 else cols[0], include_column_name=bool(item["withName"]),
                                      unique_values=bool(item["uniq"]))
    out = tr.fit_transform(df)
    exp = {}
    for o in item["objects"]:
        exp["o%d" % o] = [("c%d:v%d" % (c, v)) if item["withName"] else "v%d" % v for c, v in item["result"][o - 1]]
    got = {str(k): list(v) for k, v in out.items()}
    fails = []
    if got != exp:
        fails.append({"got": got, "expected": exp})
    if list(out.index) != sorted(exp):
        fails.append({"index": list(out.index)})
    if tr.fit(df) is not tr:
        fails.append({"what": "fit does not return self"})
    return {"ok": not fails, "fails": fails[:2]}


def variable_radii(item):
    """variable_window_radii: radii are >= 1 for every token, 0 for the mask index, and never smaller for a rarer token"""
    light()
    from vectorizers._window_kernels import variable_window_radii
    rng = np.random.RandomState(item["seed"])
    fails = []
    for _ in range(item["n"]):
        k = rng.randint(1, 12)
        freq = rng.dirichlet(np.ones(k) * rng.choice([0.3, 1.0, 5.0])).astype(np.float32) + np.float32(1e-6)
        ws = int(rng.randint(1, 20))
        for mask in (None, np.int32(k)):
            r = variable_window_radii(ws, freq.copy(), mask, 0.75)
            if r.shape[0] != k + 1:
                fails.append({"what": "length", "got": int(r.shape[0])})
                continue
            if mask is not None and r[k] != 0:
                fails.append({"what": "mask radius not 0"})
            if np.any(r[:k] < 1):
                fails.append({"what": "radius below 1", "freq": freq.tolist(), "r": r.tolist()})
            order = np.argsort(freq)
            if np.any(np.diff(r[:k][order]) > 0):
                fails.append({"what": "a more frequent token got a larger radius", "freq": freq.tolist(), "r": r.tolist()})
    return {"ok": not fails, "fails": fails[:3]}


def collapse(item):
    """utils.sparse_collapse on a Collapse.tla instance (sparse and dense label indicator)"""
    light()
    import scipy.sparse as sp
    from vectorizers.utils import sparse_collapse
    M = np.array(item["mat"], dtype=np.float64)
    lab = np.array(["L%d" % v for v in item["lab"]])
    exp = np.array(item["result"], dtype=np.float64).reshape(len(item["classes"]), len(item["classes"]))
    fails = []
    for sparse in (True, False):
        if not sparse and len(item["classes"]) < 3:
            continue      # observation (DESIGN 12.2): sparse=False with one or two labels raises AttributeError (ndarray.toarray)
        R, cl = sparse_collapse(sp.csr_matrix(M), lab, sparse=sparse)
        R = np.asarray(R.todense() if sp.issparse(R) else R, dtype=np.float64)
        if list(cl) != ["L%d" % c for c in item["classes"]]:
            fails.append({"sparse": sparse, "classes": [str(c) for c in cl]})
        elif R.shape != exp.shape or not np.allclose(R, exp):
            fails.append({"sparse": sparse, "got": R.tolist(), "expected": exp.tolist()})
    return {"ok": not fails, "fails": fails[:2]}
