"""Replays a Protocol.tla call history into a real estimator and records the observation of every call."""
import os
import tempfile
import warnings

import numpy as np

from ..snap import snap, same, row_vector, Classes, SnapClasses

warnings.filterwarnings("ignore")
_tmp = {}


def _tmpdir():
    if "d" not in _tmp:
        d = tempfile.mkdtemp(prefix="verif_tmp_")
        os.environ["TMPDIR"] = d
        tempfile.tempdir = None
        _tmp["d"] = d
    return _tmp["d"]


def _adapter(item):
    from .. import adapters
    try:
        from .. import adapters_lot
        adapters.ALL.update(adapters_lot.ALL)
    except ImportError:
        pass
    cls = adapters.ALL[item["adapter"]]
    if not cls.heavy:
        from ._light import light
        light()
    cfg = dict(cls.configs[item["cfg"]] if isinstance(item["cfg"], int) else item["cfg"])
    cfg.update(item.get("cfg_extra") or {})
    return cls(cfg, item.get("seed", 0))


def _params_snapshot(est, ad):
    """the objects the user handed to the constructor (dictionaries, arrays, lists)"""
    try:
        p = est.get_params(deep=False)
    except Exception:      # several estimators do not store every constructor argument under its own name
        p = {}
    objs = {k: v for k, v in p.items() if isinstance(v, (dict, list, set, np.ndarray)) or hasattr(v, "shape")}
    objs.update(getattr(ad, "param_objects", {}) or {})
    return snap(objs)


def _model_snapshot(est):
    return snap({k: v for k, v in vars(est).items()})


def _fitted_only(s, keys):
    """restrict a model snapshot to the given attribute names"""
    return ("dict", tuple((k, v) for k, v in s[1] if k in keys))


def run_history(item):
    """item: {adapter, cfg (index or dict), seed, history: [{op, b, knob, expect_ok}], record_model: bool, reuse: bool}"""
    d = _tmpdir()
    ad = _adapter(item)
    rows_c = Classes(ad.rtol, ad.atol)
    model_c = SnapClasses(1e-9, 1e-9)
    est = None
    steps = []
    common, model_snaps = [None], []
    for c in item["history"]:
        op = c["op"]
        o = dict(rows=[], width=-1, ret_self=True, args_ok=True, params_ok=True, model_ok=True, tmp_ok=True, raised=False, model=0)
        if op == "new":          # the estimator object is dropped; the next fit constructs a fresh one
            est = None
            steps.append({"c": c, "o": o})
            continue
        if op == "reconf":       # set_params: the existing object gets the parameters of configuration c["knob"] (1-based)
            cls = type(ad)
            ad.cfg = dict(cls.configs[c["knob"] - 1])
            ad.cfg.update(item.get("cfg_extra") or {})
            try:
                target = ad.make().get_params(deep=False)
                est.set_params(**target)
            except Exception as e:  # noqa
                return {"skip": "set_params / get_params unsupported: " + type(e).__name__ + ": " + str(e)[:120]}
            steps.append({"c": c, "o": o})
            continue
        if op == "knob":
            ks = ad.knobs
            if est is not None and ks:
                for kk, vv in ks[(c["knob"] - 1) % len(ks)].items():
                    setattr(est, kk, vv)
            steps.append({"c": c, "o": o})
            continue
        fitting = op in ("fit", "fit_transform", "refit")
        try:
            X, kw = ad.batch(c["b"], fitting=fitting)
        except TypeError:
            X, kw = ad.batch(c["b"])
        if fitting and (est is None or op == "refit" or not item.get("reuse")):
            est = ad.make()          # (with item["reuse"] a later fit / fit_transform re-fits the SAME object)
        elif est is not None and hasattr(ad, "_n") and hasattr(est, "generator_n_distributions"):
            est.generator_n_distributions = ad._n
        before_args = snap((X, kw)) if not (item.get("no_arg_snapshot") or getattr(ad, "no_arg_snapshot", False)) else None
        before_par = _params_snapshot(est, ad)
        before_model = _model_snapshot(est) if op == "transform" else None
        before_tmp = sorted(os.listdir(d))
        out = None
        try:
            if op in ("fit", "refit"):
                r = est.fit(X, **kw)
                o["ret_self"] = r is est
            elif op == "fit_transform":
                out = est.fit_transform(X, **kw)
            elif op == "transform":
                out = est.transform(X, **(kw if ad.transform_kwargs else {}))
        except Exception as e:  # noqa
            o["raised"] = True
            o["exc"] = type(e).__name__ + ": " + str(e)[:200]
        if before_args is not None:
            o["args_ok"] = same(before_args, snap((X, kw)))
        o["params_ok"] = same(before_par, _params_snapshot(est, ad))
        if before_model is not None:
            o["model_ok"] = same(before_model, _model_snapshot(est))
        o["tmp_ok"] = sorted(os.listdir(d)) == before_tmp
        if not o["raised"]:
            if op in ("fit", "refit", "fit_transform") and item.get("record_model", True):
                ms = _model_snapshot(est)
                # attributes that only exist after a transform (by-products such as mix_weights_) are not part of the
                # fitted model: compare on the attributes every recorded model of this history has
                keys = set(k for k, _ in ms[1])
                common[0] = keys if common[0] is None else (common[0] & keys)
                model_snaps.append(ms)
                o["model"] = len(model_snaps)
            if out is not None:
                try:
                    rs = ad.rows(out, len(c["b"]))
                    if fitting and len(rs) > len(c["b"]):      # padded fit batch: rows of the requested items only
                        rs = rs[: len(c["b"])]
                    o["rows"] = [rows_c.cid(row_vector(r)) for r in rs]
                    o["width"] = ad.width(out)
                    vals = [row_vector(r) for r in rs]
                    o["finite"] = all(isinstance(v, tuple) or bool(np.all(np.isfinite(v))) for v in vals)
                    o["min"] = min([float(v.min()) for v in vals if not isinstance(v, tuple) and v.size] or [0.0])
                    if item.get("return_values"):
                        o["vals"] = [v[1] if isinstance(v, tuple) else [float(t) for t in v[:256]] for v in vals]
                except Exception as e:  # noqa
                    o["raised"] = True
                    o["exc"] = "rows: " + type(e).__name__ + ": " + str(e)[:200]
        steps.append({"c": c, "o": o})
    # model classes on the common attributes
    reps = []
    for st in steps:
        m = st["o"].get("model", 0)
        if m:
            st["o"]["model"] = model_c.cid(_fitted_only(model_snaps[m - 1], common[0]))
    return {"steps": steps}
