"""Records fits / transforms of LZCompressionVectorizer and BytePairEncodingVectorizer for LZ.tla / Trace_BPE.tla."""
import numpy as np

from ._light import light

_c = {}


def _mods():
    light()
    if not _c:
        import numba
        import vectorizers.mixed_gram_vectorizer as mg
        _c["mg"] = mg

        @numba.njit
        def h3(s):
            t = 0
            for ch in s:
                t += ord(ch)
            m = t % 3
            if m == 0:
                return "h0"
            if m == 1:
                return "h1"
            return "h2"
        _c["h3"] = h3
    return _c["mg"]


def codes(s):
    return [ord(ch) for ch in s]


def record_lz(item):
    mg = _mods()
    cfg = item["cfg"]
    kw = dict(max_dict_size=cfg["max_dict_size"], max_columns=cfg["max_columns"], random_state=cfg.get("seed", 0))
    if cfg.get("hash") == "custom":
        kw["hash_function"] = _c["h3"]
    if cfg.get("base"):
        kw["base_dictionary"] = dict(cfg["base"])
    train, test = item["train"], item["test"]
    out = {"ok": True}
    try:
        m = mg.LZCompressionVectorizer(**kw)
        M = m.fit_transform(train)
        m2 = mg.LZCompressionVectorizer(**kw)
        if item.get("reuse"):        # the object has a past: fitted on other strings and used, then re-fitted (nothing may leak)
            m2.fit(["zzyzzy", "yz"])
            m2.transform(["zy", ""])
        r = m2.fit(train)
        out["fit_returns_self"] = r is m2
        T1 = m2.transform(train)
        T2 = m2.transform(test)
    except Exception as e:  # noqa
        return {"ok": False, "exc": type(e).__name__ + ": " + str(e)[:300]}
    hf = m.hash_function_

    def key(ph):
        k = hf(ph)
        return codes(k) if (isinstance(k, str) and cfg.get("hash") != "custom") else (k if isinstance(k, str) else int(k))
    phrases = set()
    for s in list(train) + list(test):
        for a in range(len(s) + 1):
            for b in range(a, len(s) + 1):
                phrases.add(s[a:b])
    for k in (cfg.get("base") or {}):
        phrases.add(k)
    out["ht"] = [[codes(p), key(p)] for p in sorted(phrases)]
    out["base"] = [[key(k), int(v)] for k, v in (cfg.get("base") or {}).items()]
    cl = {}
    for k, v in m.column_label_dictionary_.items():
        cl[int(v)] = codes(k) if (isinstance(k, str) and cfg.get("hash") != "custom") else (k if isinstance(k, str) else int(k))
    out["cols"] = [cl[i] for i in range(len(cl))]
    same_cols = dict(m.column_label_dictionary_) == dict(m2.column_label_dictionary_)
    out["same_columns_fit_vs_fit_transform"] = bool(same_cols)

    def rows(A):
        A = A.tocsr()
        return [[[int(c), int(v)] for c, v in sorted(zip(A[i].indices.tolist(), A[i].data.tolist())) if v != 0] for i in range(A.shape[0])]
    out["ft"], out["t_train"], out["t_test"] = rows(M), rows(T1), rows(T2)
    out["shapes"] = [list(M.shape), list(T1.shape), list(T2.shape)]
    return out


def record_bpe(item):
    mg = _mods()
    cfg = item["cfg"]
    train, test = item["train"], item["test"]
    out = {"ok": True}
    res = {}
    try:
        for rt in ("sequences", "tokens", "matrix"):
            m = mg.BytePairEncodingVectorizer(max_vocab_size=cfg["vocab"], min_token_occurrence=cfg["minocc"], return_type=rt,
                                              max_char_code=cfg["mcc"])
            ft = m.fit_transform(train)
            m2 = mg.BytePairEncodingVectorizer(max_vocab_size=cfg["vocab"], min_token_occurrence=cfg["minocc"], return_type=rt,
                                               max_char_code=cfg["mcc"])
            if item.get("reuse"):    # the object has a past: fitted on other strings and used, then re-fitted (nothing may leak)
                m2.fit(["xyxyxyxy", "yxyx"])
                m2.transform(["xyxy", ""])
            r = m2.fit(train)
            if r is not m2:
                out["fit_returns_self"] = False
            res[rt] = (m, ft, m2, m2.transform(list(train) + list(test)))
    except Exception as e:  # noqa
        return {"ok": False, "exc": type(e).__name__ + ": " + str(e)[:300], "stage": rt}
    m, ft, m2, tr = res["sequences"]
    mcc = int(m.max_char_code_)
    out["mcc"] = mcc
    out["codes"] = [[int(a), int(b)] for a, b in m.code_list_]
    out["tokens"] = [codes(t) for t in m.tokens_]
    out["strings"] = [codes(s) for s in train]
    out["tstrings"] = [codes(s) for s in list(train) + list(test)]
    out["enc_ft"] = [[int(x) for x in e] for e in ft]
    out["enc_t"] = [[int(x) for x in e] for e in tr]
    out["same_model"] = (list(map(tuple, m.code_list_)) == list(map(tuple, m2.code_list_)) and list(m.tokens_) == list(m2.tokens_))
    # 'tokens' and 'matrix' outputs must be the code strings / code counts of the 'sequences' output
    fails = []

    def tok(c):
        return chr(c) if c <= mcc else m.tokens_[c - mcc - 1]
    mt, ft_t, m2t, tr_t = res["tokens"]
    if [list(r) for r in ft_t] != [[tok(c) for c in e] for e in out["enc_ft"]]:
        fails.append("tokens output of fit_transform is not the token strings of the sequences output")
    if [list(r) for r in tr_t] != [[tok(c) for c in e] for e in out["enc_t"]]:
        fails.append("tokens output of transform is not the token strings of the sequences output")
    mm, ft_m, m2m, tr_m = res["matrix"]
    cl = {int(k): int(v) for k, v in m2m.column_label_dictionary_.items()}

    def bag(A, encs, what):
        A = A.tocsr()
        if A.shape[0] != len(encs):
            fails.append(what + ": %d rows for %d strings" % (A.shape[0], len(encs)))
            return
        if A.shape[1] != len(cl):
            fails.append(what + ": width %d but %d fitted columns" % (A.shape[1], len(cl)))
            return
        for i, e in enumerate(encs):
            want = {}
            for c in e:
                if c in cl:
                    want[cl[c]] = want.get(cl[c], 0) + 1
            got = {int(c): int(v) for c, v in zip(A[i].indices, A[i].data) if v != 0}
            if got != want:
                fails.append(what + ": row %d is %s, code counts are %s" % (i, got, want))
                return
    try:
        bag(ft_m, out["enc_ft"], "matrix output of fit_transform")
        bag(tr_m, out["enc_t"], "matrix output of transform")
    except Exception as e:  # noqa
        fails.append("matrix comparison raised " + type(e).__name__)
    out["output_fails"] = fails
    return out
