"""Replays Cooc.tla instances into the real co-occurrence vectorizers and compares label-wise."""
import os
from fractions import Fraction

import numpy as np

from ._light import light
from ..cooc_cfg import TOKS

RTOL, ATOL = 2e-5, 1e-7
_cache = {}


def _cls(name):
    light()
    if name not in _cache:
        if name == "token":
            from vectorizers.token_cooccurrence_vectorizer import TokenCooccurrenceVectorizer as C
        elif name == "timed":
            from vectorizers.timed_token_cooccurrence_vectorizer import TimedTokenCooccurrenceVectorizer as C
        elif name == "multi":
            from vectorizers.multi_token_cooccurence_vectorizer import MultiSetCooccurrenceVectorizer as C
        elif name == "ngram":
            from vectorizers.ngram_token_cooccurence_vectorizer import NgramCooccurrenceVectorizer as C
        else:
            raise KeyError(name)
        import vectorizers.coo_utils as cu
        assert os.path.realpath(cu.__file__).startswith(os.path.realpath(os.environ.get("VERIF_REPO", "/repo")))
        _cache[name] = C
    return _cache[name]


def table_fn(table):
    tab = np.array(table, dtype=np.int64)

    def fn(window_size, token_frequency, mask_index=None, *a):
        n = len(token_frequency) + 1
        t = np.resize(tab, n).astype(np.int64) if len(tab) < n else tab[:n].copy()
        if len(tab) < n:
            t[len(tab):] = tab[-1]
        if mask_index is not None:
            t[mask_index] = 0
        return t
    return fn


def kwargs_for(c, V, fixed_dict):
    kw = {}
    wins = c["wins"]
    kw["kernel_functions"] = [c["kernel"]] * len(wins)
    kas = []
    for w in wins:
        ka = {"normalize": bool(w["knorm"]), "offset": int(w["offset"])}
        if c["kernel"] == "geometric":
            ka["power"] = 0.5
        kas.append(ka)
    kw["kernel_args"] = kas
    kw["window_radii"] = [int(w["r"]) for w in wins]
    kw["window_orientations"] = [w["orient"] for w in wins]
    kw["mix_weights"] = [float(w["mix"]) for w in wins]
    kw["normalize_windows"] = bool(c["wnorm"])
    wf = []
    for w in wins:
        wf.append(table_fn(w["table"]) if w["table"] else "fixed")
    kw["window_functions"] = wf
    if fixed_dict:
        kw["token_dictionary"] = {TOKS[i]: i for i in range(V)}
    return kw


def needs_fixed_dict(c):
    return any(w["table"] for w in c["wins"])


def expected_cells(cells):
    exp = {}
    for e in cells:
        val = sum(Fraction(n, d) for n, d in e["v"])
        if val != 0:
            exp[(TOKS[e["r"]] if isinstance(e["r"], int) else "_".join(TOKS[t] for t in e["r"]),
                 e["b"] + "_" + (TOKS[e["c"]] if isinstance(e["c"], int) else e["c"]))] = val
    return exp


def observed_cells(model, M, row_index=None):
    M = M.tocoo()
    rid = row_index if row_index is not None else model.token_index_dictionary_
    cid = model.column_index_dictionary_
    got = {}
    for r, c, v in zip(M.row, M.col, M.data):
        if v != 0:
            k = (str(rid[int(r)]), str(cid[int(c)]))
            got[k] = got.get(k, 0.0) + float(v)
    return got


def compare(exp, got):
    bad = []
    for k in set(exp) | set(got):
        e = float(exp.get(k, 0))
        g = got.get(k, 0.0)
        if not np.isfinite(g) or abs(e - g) > ATOL + RTOL * abs(e):
            bad.append([list(k), e, g])
    return sorted(bad)[:8]


def docs_of(corpus):
    return [[TOKS[t] for t in d] for d in corpus]


def run_token(item):
    """item: {corpus, cfg, V, cells, extra: {ctor kwargs}, do_transform}"""
    C = _cls("token")
    c, V = item["cfg"], item["V"]
    kw = kwargs_for(c, V, needs_fixed_dict(c))
    kw.update(item.get("extra") or {})
    X = docs_of(item["corpus"])
    exp = expected_cells(item["cells"])
    m = C(**kw)
    M = m.fit_transform(X)
    out = {"ok": True}
    nrow = len(m.token_label_dictionary_)
    if M.shape != (nrow, nrow * len(m.column_label_dictionary_) // max(nrow, 1)):
        out.update(ok=False, shape=list(M.shape))
    bad = compare(exp, observed_cells(m, M))
    if bad:
        out.update(ok=False, where="fit_transform", bad=bad)
    if item.get("do_transform", True):
        m2 = C(**kw)
        r = m2.fit(X)
        if r is not m2:
            out.update(ok=False, fit_returns_self=False)
        M2 = m2.transform(X)
        bad2 = compare(exp, observed_cells(m2, M2))
        if bad2 or M2.shape != M.shape:
            out.update(ok=False, where_t="fit.transform", bad_t=bad2, shape_t=list(M2.shape))
    return out


def run_timed(item):
    """item as run_token plus times (same shape as corpus) and shifts (list of time offsets)."""
    C = _cls("timed")
    c, V = item["cfg"], item["V"]
    kw = kwargs_for(c, V, needs_fixed_dict(c))
    for ka in kw["kernel_args"]:
        ka["delta"] = 1.0
    kw.update(item.get("extra") or {})
    exp = expected_cells(item["cells"])
    out = {"ok": True}
    for shift in item.get("shifts", [0]):
        X = [[(TOKS[t], float(tm + shift)) for t, tm in zip(d, ts)] for d, ts in zip(item["corpus"], item["times"])]
        m = C(**kw)
        M = m.fit_transform(X)
        bad = compare(exp, observed_cells(m, M))
        if bad:
            out.update(ok=False, where="fit_transform shift=%s" % shift, bad=bad)
            break
        if item.get("do_transform", True) and shift == 0:
            m2 = C(**kw)
            if m2.fit(X) is not m2:
                out.update(ok=False, fit_returns_self=False)
            M2 = m2.transform(X)
            bad2 = compare(exp, observed_cells(m2, M2))
            if bad2 or M2.shape != M.shape:
                out.update(ok=False, where_t="fit.transform", bad_t=bad2, shape_t=list(M2.shape))
    return out


def run_multi(item):
    C = _cls("multi")
    c, V = item["cfg"], item["V"]
    kw = kwargs_for(c, V, needs_fixed_dict(c))
    kw.update(item.get("extra") or {})
    X = [[[TOKS[t] for t in ms] for ms in d] for d in item["corpus"]]
    exp = expected_cells(item["cells"])
    m = C(**kw)
    M = m.fit_transform(X)
    out = {"ok": True}
    bad = compare(exp, observed_cells(m, M))
    if bad:
        out.update(ok=False, where="fit_transform", bad=bad)
    if item.get("do_transform", True):
        m2 = C(**kw)
        if m2.fit(X) is not m2:
            out.update(ok=False, fit_returns_self=False)
        M2 = m2.transform(X)
        bad2 = compare(exp, observed_cells(m2, M2))
        if bad2 or M2.shape != M.shape:
            out.update(ok=False, where_t="fit.transform", bad_t=bad2, shape_t=list(M2.shape))
    return out


def run_ngram(item):
    C = _cls("ngram")
    c, V = item["cfg"], item["V"]
    kw = kwargs_for(c, V, False)
    kw["ngram_size"] = item["N"]
    kw.update(item.get("extra") or {})
    X = docs_of(item["corpus"])
    exp = expected_cells(item["cells"])
    m = C(**kw)
    M = m.fit_transform(X)
    out = {"ok": True}
    rid = {v: k for k, v in m.ngram_label_dictionary_.items()}
    if M.shape[0] != len(rid):
        out.update(ok=False, shape=list(M.shape))
    bad = compare(exp, observed_cells(m, M, rid))
    if bad:
        out.update(ok=False, where="fit_transform", bad=bad)
    if item.get("do_transform", True):
        m2 = C(**kw)
        if m2.fit(X) is not m2:
            out.update(ok=False, fit_returns_self=False)
        M2 = m2.transform(X)
        rid2 = {v: k for k, v in m2.ngram_label_dictionary_.items()}
        bad2 = compare(exp, observed_cells(m2, M2, rid2))
        if bad2 or M2.shape != M.shape:
            out.update(ok=False, where_t="fit.transform", bad_t=bad2, shape_t=list(M2.shape))
    return out
