"""Replays Cooc.tla instances into the real co-occurrence vectorizers and compares label-wise."""
import os
from fractions import Fraction

import numpy as np

from ._light import light
from ..cooc_cfg import TOKS

RTOL, ATOL = 2e-5, 1e-7
_cache = {}


def _cls(name):
    light()
    if name not in _cache:
        if name == "token":
            from vectorizers.token_cooccurrence_vectorizer import TokenCooccurrenceVectorizer as C
        elif name == "timed":
            from vectorizers.timed_token_cooccurrence_vectorizer import TimedTokenCooccurrenceVectorizer as C
        elif name == "multi":
            from vectorizers.multi_token_cooccurence_vectorizer import MultiSetCooccurrenceVectorizer as C
        elif name == "ngram":
            from vectorizers.ngram_token_cooccurence_vectorizer import NgramCooccurrenceVectorizer as C
        else:
            raise KeyError(name)
        import vectorizers.coo_utils as cu
        assert os.path.realpath(cu.__file__).startswith(os.path.realpath(os.environ.get("VERIF_REPO", "/repo")))
        _cache[name] = C
    return _cache[name]


def table_fn(table):
    tab = np.array(table, dtype=np.int64)

    def fn(window_size, token_frequency, mask_index=None, *a):
        n = len(token_frequency) + 1
        t = np.resize(tab, n).astype(np.int64) if len(tab) < n else tab[:n].copy()
        if len(tab) < n:
            t[len(tab):] = tab[-1]
        if mask_index is not None:
            t[mask_index] = 0
        return t
    return fn


def kwargs_for(c, V, fixed_dict, explicit=False):
    """explicit=False: arguments equal to their documented defaults are left out (the way a user writes them);
    explicit=True: every argument spelled out.  Both encode the same configuration."""
    kw = {}
    wins = c["wins"]
    kw["kernel_functions"] = [c["kernel"]] * len(wins)
    kas = []
    for w in wins:
        ka = {}
        if explicit or w["knorm"]:
            ka["normalize"] = bool(w["knorm"])
        if explicit or w["offset"]:
            ka["offset"] = int(w["offset"])
        if c["kernel"] == "geometric":
            ka["power"] = 0.5
        kas.append(ka)
    kw["kernel_args"] = kas
    kw["window_radii"] = [int(w["r"]) for w in wins]
    kw["window_orientations"] = [w["orient"] for w in wins]
    kw["mix_weights"] = [float(w["mix"]) for w in wins]
    kw["normalize_windows"] = bool(c["wnorm"])
    wf = []
    for w in wins:
        wf.append(table_fn(w["table"]) if w["table"] else ("fixed" if w.get("var") is None else "variable"))
    kw["window_functions"] = wf
    if any(w.get("var") is not None for w in wins):
        kw["window_args"] = [{} if w.get("var") is None else {"power": float(w["var"])} for w in wins]
    if fixed_dict:
        kw["token_dictionary"] = {TOKS[i]: i for i in range(V)}
    return kw


def needs_fixed_dict(c):
    return any(w["table"] for w in c["wins"])


MASK_STRING = "[M]"


def expected_cells(cells, V=None):
    """cells of the specification -> {(row label, column label): Fraction}; token index V is the mask token"""
    def nm(t):
        return MASK_STRING if (V is not None and t == V) else TOKS[t]
    exp = {}
    for e in cells:
        val = sum(Fraction(n, d) for n, d in e["v"])
        if val != 0:
            exp[(nm(e["r"]) if isinstance(e["r"], int) else "_".join(nm(t) for t in e["r"]),
                 e["b"] + "_" + (nm(e["c"]) if isinstance(e["c"], int) else e["c"]))] = val
    return exp


def prune_kwargs(item, c):
    """vocabulary settings of C14: excluded tokens, mask string, nullify"""
    pr = item.get("prune")
    kw = {}
    if pr:
        if pr["excluded"]:
            kw["excluded_tokens"] = set(TOKS[i] for i in pr["excluded"])
        if pr["mask"]:
            kw["mask_string"] = MASK_STRING
            if c.get("nullify"):
                kw["nullify_mask"] = True
    return kw


def check_mask_entry(m, item):
    """with a mask string the mask is exactly one extra vocabulary entry with the last index"""
    pr = item.get("prune")
    d = m.token_label_dictionary_
    if pr and pr["mask"]:
        if d.get(MASK_STRING) != len(d) - 1 or sorted(d.values()) != list(range(len(d))):
            return {"mask_entry": {str(k): int(v) for k, v in d.items()}}
    elif MASK_STRING in d:
        return {"mask_entry_without_mask_string": True}
    return {}


def observed_cells(model, M, row_index=None):
    M = M.tocoo()
    rid = row_index if row_index is not None else model.token_index_dictionary_
    cid = model.column_index_dictionary_
    got = {}
    for r, c, v in zip(M.row, M.col, M.data):
        if v != 0:
            k = (str(rid[int(r)]), str(cid[int(c)]))
            got[k] = got.get(k, 0.0) + float(v)
    return got


def compare(exp, got):
    bad = []
    for k in set(exp) | set(got):
        e = float(exp.get(k, 0))
        g = got.get(k, 0.0)
        if not np.isfinite(g) or abs(e - g) > ATOL + RTOL * abs(e):
            bad.append([list(k), e, g])
    return sorted(bad)[:8]


def pre_use(m, X):
    """gives the estimator object a past: fitted on another small input and used, before the fit under test (nothing may leak)"""
    m.fit(X)
    m.transform(X)


def docs_of(corpus):
    return [[TOKS[t] for t in d] for d in corpus]


def run_token(item):
    """item: {corpus, cfg, V, cells, extra: {ctor kwargs}, do_transform}"""
    C = _cls("token")
    c, V = item["cfg"], item["V"]
    kw = kwargs_for(c, V, needs_fixed_dict(c), item.get("explicit", False))
    kw.update(item.get("extra") or {})
    X = docs_of(item["corpus"])
    exp = expected_cells(item["cells"])
    m = C(**kw)
    M = m.fit_transform(X)
    out = {"ok": True}
    nrow = len(m.token_label_dictionary_)
    if M.shape != (nrow, nrow * len(m.column_label_dictionary_) // max(nrow, 1)):
        out.update(ok=False, shape=list(M.shape))
    bad = compare(exp, observed_cells(m, M))
    if bad:
        out.update(ok=False, where="fit_transform", bad=bad)
    if item.get("do_transform", True):
        m2 = C(**kw)
        if item.get("reuse"):
            pre_use(m2, docs_of([[1, 0, 1, 1, 0][: 2 + V], [0]]))
        r = m2.fit(X)
        if r is not m2:
            out.update(ok=False, fit_returns_self=False)
        M2 = m2.transform(X)
        bad2 = compare(exp, observed_cells(m2, M2))
        if bad2 or M2.shape != M.shape:
            out.update(ok=False, where_t="fit.transform", bad_t=bad2, shape_t=list(M2.shape))
    return out


def run_timed(item):
    """item as run_token plus times (same shape as corpus) and shifts (list of time offsets)."""
    C = _cls("timed")
    c, V = item["cfg"], item["V"]
    kw = kwargs_for(c, V, needs_fixed_dict(c), item.get("explicit", False))
    for ka in kw["kernel_args"]:
        ka["delta"] = 1.0
    kw.update(item.get("extra") or {})
    exp = expected_cells(item["cells"])
    out = {"ok": True}
    for shift in item.get("shifts", [0]):
        X = [[(TOKS[t], float(tm + shift)) for t, tm in zip(d, ts)] for d, ts in zip(item["corpus"], item["times"])]
        m = C(**kw)
        M = m.fit_transform(X)
        bad = compare(exp, observed_cells(m, M))
        if bad:
            out.update(ok=False, where="fit_transform shift=%s" % shift, bad=bad)
            break
        if item.get("do_transform", True) and shift == 0:
            m2 = C(**kw)
            if item.get("reuse"):
                pre_use(m2, [[(TOKS[1], 0.0), (TOKS[0], 1.0), (TOKS[1], 3.0)], [(TOKS[0], 5.0)]])
            if m2.fit(X) is not m2:
                out.update(ok=False, fit_returns_self=False)
            M2 = m2.transform(X)
            bad2 = compare(exp, observed_cells(m2, M2))
            if bad2 or M2.shape != M.shape:
                out.update(ok=False, where_t="fit.transform", bad_t=bad2, shape_t=list(M2.shape))
    return out


def run_multi(item):
    C = _cls("multi")
    c, V = item["cfg"], item["V"]
    kw = kwargs_for(c, V, needs_fixed_dict(c), item.get("explicit", False))
    kw.update(item.get("extra") or {})
    X = [[[TOKS[t] for t in ms] for ms in d] for d in item["corpus"]]
    exp = expected_cells(item["cells"])
    m = C(**kw)
    M = m.fit_transform(X)
    out = {"ok": True}
    bad = compare(exp, observed_cells(m, M))
    if bad:
        out.update(ok=False, where="fit_transform", bad=bad)
    if item.get("do_transform", True):
        m2 = C(**kw)
        if item.get("reuse"):
            pre_use(m2, [[[TOKS[1]], [TOKS[0], TOKS[1]], [TOKS[1]]]])
        if m2.fit(X) is not m2:
            out.update(ok=False, fit_returns_self=False)
        M2 = m2.transform(X)
        bad2 = compare(exp, observed_cells(m2, M2))
        if bad2 or M2.shape != M.shape:
            out.update(ok=False, where_t="fit.transform", bad_t=bad2, shape_t=list(M2.shape))
    return out


def run_ngram(item):
    C = _cls("ngram")
    c, V = item["cfg"], item["V"]
    kw = kwargs_for(c, V, False, item.get("explicit", False))
    kw["ngram_size"] = item["N"]
    kw.update(item.get("extra") or {})
    X = docs_of(item["corpus"])
    exp = expected_cells(item["cells"])
    m = C(**kw)
    M = m.fit_transform(X)
    out = {"ok": True}
    rid = {v: k for k, v in m.ngram_label_dictionary_.items()}
    if M.shape[0] != len(rid):
        out.update(ok=False, shape=list(M.shape))
    bad = compare(exp, observed_cells(m, M, rid))
    if bad:
        out.update(ok=False, where="fit_transform", bad=bad)
    if item.get("do_transform", True):
        m2 = C(**kw)
        if item.get("reuse"):
            pre_use(m2, docs_of([[1, 0, 1, 1, 0, 0, 1]]))
        if m2.fit(X) is not m2:
            out.update(ok=False, fit_returns_self=False)
        M2 = m2.transform(X)
        rid2 = {v: k for k, v in m2.ngram_label_dictionary_.items()}
        bad2 = compare(exp, observed_cells(m2, M2, rid2))
        if bad2 or M2.shape != M.shape:
            out.update(ok=False, where_t="fit.transform", bad_t=bad2, shape_t=list(M2.shape))
    return out


# ------------------------------------------------------------------ generic runner (C04 sweeps, C01, C02)
def build_X(item, corpus=None):
    fam = item["family"]
    corpus = item["corpus"] if corpus is None else corpus
    if fam == "timed":
        times = item.get("times") or [[i + 1 for i in range(len(d))] for d in corpus]
        return [[(TOKS[t], float(tm)) for t, tm in zip(d, ts)] for d, ts in zip(corpus, times)]
    if fam == "multi":
        return [[[TOKS[t] for t in ms] for ms in d] for d in corpus]
    return docs_of(corpus)


def vocab_doc(item):
    """a tiny training corpus containing every token (and for ngram every n-gram) of the vocabulary once"""
    V, fam = item["V"], item["family"]
    if fam == "multi":
        return [[[t] for t in range(V)]]
    if fam == "ngram":
        import itertools
        n = item["N"]
        seq = []
        for g in itertools.product(range(V), repeat=n):
            seq.extend(g)
        # de Bruijn-like: all n-grams occur in the concatenation of all n-tuples
        return [seq]
    return [list(range(V))]


def run(item):
    """item: {family, corpus, cfg, V, cells, extra, modes: ["ft","t","small_t"], (times), (N)}"""
    fam = item["family"]
    C = _cls(fam)
    c, V = item["cfg"], item["V"]
    kw = kwargs_for(c, V, needs_fixed_dict(c) and fam != "ngram", item.get("explicit", False))
    if fam == "timed":
        for ka in kw["kernel_args"]:
            ka["delta"] = 1.0
    if fam == "ngram":
        kw["ngram_size"] = item["N"]
    kw.update(prune_kwargs(item, c))
    kw.update(item.get("extra") or {})
    X = build_X(item)
    exp = expected_cells(item["cells"], V if item.get("prune") else None)
    out = {"ok": True, "fails": []}

    def rows(m):
        return {v: k for k, v in m.ngram_label_dictionary_.items()} if fam == "ngram" else None

    for mode in item.get("modes", ["ft"]):
        m = C(**kw)
        if mode == "ft":
            M = m.fit_transform(X)
        elif mode == "t":
            if item.get("reuse"):
                pre_use(m, build_X(dict(item, times=None), vocab_doc(item)))
            r = m.fit(X)
            if r is not m:
                out["ok"] = False
                out["fails"].append({"mode": mode, "fit_returns_self": False})
            M = m.transform(X)
        else:
            small = build_X(dict(item, times=None), vocab_doc(item))
            m.fit(small)
            M = m.transform(X)
        bad = compare(exp, observed_cells(m, M, rows(m)))
        if bad:
            out["ok"] = False
            out["fails"].append({"mode": mode, "bad": bad})
        me = check_mask_entry(m, item) if fam != "ngram" else {}
        if me:
            out["ok"] = False
            out["fails"].append(dict(me, mode=mode))
    return out


def chunks(item):
    """S->C for Chunking.tla: item = {sizes, n, chunks}"""
    fam = item.get("family", "token")
    C = _cls(fam)
    m = C()
    if fam == "multi":
        data = [[[0] * s] if s else [[]] for s in item["sizes"]]
    else:
        data = [[0] * s for s in item["sizes"]]
    got = [[int(a), int(b)] for a, b in m._generate_chunk_boundaries(data, item["n"])]
    return {"ok": got == [list(x) for x in item["chunks"]], "got": got}


def scale(item):
    """production-threshold run against the closed form of CoocAtScale.tla (flat kernel, directional)"""
    C = _cls("token")
    import vectorizers.coo_utils as cu
    L, V, R, D = item["l"], item["v"], item["r"], item["d"]
    names = ["t%06d" % i for i in range(V)]
    doc = [names[p % V] for p in range(L)]
    X = [list(doc) for _ in range(D)]
    m = C(window_radii=R, window_orientations="directional", normalize_windows=False, kernel_functions="flat",
          coo_initial_memory=item["mem"], n_threads=item["nt"])
    M = m.fit_transform(X).tocsr()
    tl, cl = m.token_label_dictionary_, m.column_label_dictionary_
    bad, n = [], 0
    for c in item["cells"]:
        ra = tl[names[c["a"]]]
        for blk, key in (("pre_0_", "pre"), ("post_0_", "post")):
            got = float(M[ra, cl[blk + names[c["b"]]]])
            n += 1
            if got != float(c[key]):
                bad.append([c["a"], c["b"], blk, c[key], got])
    tot = float(M.sum())
    return {"ok": not bad and tot == float(item["events"]), "bad": bad[:10], "nbad": len(bad), "cells_checked": n,
            "total": tot, "expected_total": item["events"], "limit": int(cu.COO_QUICKSORT_LIMIT),
            "coo_sizes": [int(x) for x in m._coo_sizes]}


def run_unseen(item):
    """C01: fit on a corpus holding exactly the seen tokens, transform the corpus that also holds unseen ones"""
    fam = item["family"]
    C = _cls(fam)
    c, V = item["cfg"], item["V"]
    kw = kwargs_for(c, V, False, item.get("explicit", False))
    if item["mask"]:
        kw["mask_string"] = MASK_STRING
    seen = [t for t in range(V) if t not in item["unseen"]]
    train = [[TOKS[t] for t in seen] * 2, [TOKS[seen[0]]]]
    X = docs_of(item["corpus"])
    exp = expected_cells(item["cells"], V)
    fails = []
    m = C(**kw)
    m.fit(train)
    n = len(m.token_label_dictionary_)
    width = len(m.column_label_dictionary_)
    try:
        M = m.transform(X)
    except Exception as e:  # noqa
        return {"ok": False, "fails": ["transform raised " + type(e).__name__ + ": " + str(e)[:120]]}
    if M.shape != (n, width):
        fails.append("shape %s instead of %s" % (list(M.shape), [n, width]))
    if len(m.token_label_dictionary_) != n or len(m.column_label_dictionary_) != width:
        fails.append("transform changed the fitted dictionaries")
    bad = compare(exp, observed_cells(m, M))
    if bad:
        fails.append("cells differ from the definition on the fitted vocabulary")
    return {"ok": not fails, "fails": fails, "bad": bad[:4]}


def run_thresh(item):
    """C11: n_iter = 0 with epsilon > 0 against the integer-only Thresh of Cooc.tla; item has thresh (one cell list per epsilon) and eps"""
    fam = item.get("family", "token")
    C = _cls(fam)
    c, V = item["cfg"], item["V"]
    fails = []
    for (en, ed), cells in zip(item["eps"], item["thresh"]):
        kw = kwargs_for(c, V, False, item.get("explicit", False))
        if fam == "timed":
            for ka in kw["kernel_args"]:
                ka["delta"] = 1.0
        kw.update(epsilon=en / ed, n_iter=0)
        kw.update(item.get("extra") or {})
        m = C(**kw)
        M = m.fit_transform(build_X(item))
        exp = {(TOKS[e["r"]], e["b"] + "_" + TOKS[e["c"]]): e["n"] / e["d"] for e in cells}
        bad = compare(exp, observed_cells(m, M))
        if bad:
            fails.append({"eps": [en, ed], "bad": bad})
    return {"ok": not fails, "fails": fails[:3]}
