"""Drives the real vectorizers.coo_utils.coo_append one call at a time and projects the CooArray
onto the abstract state of specs/CooBuffer.tla (ind, depth, cap, mn, live key/val)."""
import os

import numpy as np

KM = 8  # key = row * KM + col


def _mods():
    from ._light import light
    light()
    import vectorizers.coo_utils as cu
    assert os.path.realpath(cu.__file__).startswith(os.path.realpath(os.environ.get("VERIF_REPO", "/repo"))), cu.__file__
    return cu


def new_coo(cu, cap):
    return cu.CooArray(
        np.zeros(cap, dtype=np.int32), np.zeros(cap, dtype=np.int32), np.zeros(cap, dtype=np.float32),
        np.zeros(cap, dtype=np.int64), np.zeros(1, dtype=np.int64),
        np.zeros(2 * np.int64(np.ceil(np.log2(cap))), dtype=np.int64), np.zeros(1, dtype=np.int64))


def proj(coo):
    n = int(coo.ind[0])
    ok = bool(np.all(coo.row[:n].astype(np.int64) * KM + coo.col[:n] == coo.key[:n]))
    vals = coo.val[:n]
    ints = bool(np.all(vals == np.round(vals)))
    return {"ind": n, "depth": int(coo.depth[0]), "cap": int(coo.key.shape[0]),
            "mn": [int(x) for x in coo.min], "key": [int(x) for x in coo.key[:n]],
            "val": [int(x) for x in vals] if ints else [float(x) for x in vals],
            "rowcol_ok": ok and coo.row.shape[0] == coo.key.shape[0] == coo.col.shape[0] == coo.val.shape[0]}


def append(cu, coo, k, v):
    return cu.coo_append(coo, (np.int32(k // KM), np.int32(k % KM), np.float32(v), np.int64(k)))


def finalize(cu, coo):
    cu.coo_sum_duplicates(coo)
    cu.merge_all_sum_duplicates(coo)
    return coo


def check_limit(cu, limit):
    got = int(cu.COO_QUICKSORT_LIMIT)
    if got != int(limit):
        raise RuntimeError("hook not effective: COO_QUICKSORT_LIMIT=%s wanted %s" % (got, limit))


def _cmp(exp, got, fields=("ind", "depth", "cap", "mn", "key", "val")):
    bad = [f for f in fields if exp[f] != got[f]]
    if not got["rowcol_ok"]:
        bad.append("rowcol")
    return bad


def replay(item):
    """S->C: item = {limit, cap0, h: [[k,v]..], st: proj, fin: proj} from TLC."""
    cu = _mods()
    check_limit(cu, item["limit"])
    coo = new_coo(cu, item["cap0"])
    for k, v in item["h"]:
        coo = append(cu, coo, k, v)
    got = proj(coo)
    bad = _cmp(item["st"], got)
    out = {"ok": not bad, "bad": bad}
    if bad:
        out["got"] = got
    else:
        # finalize on a copy of the arrays (the spec's Finalize does not change st)
        c2 = cu.CooArray(*[a.copy() for a in coo])
        gf = proj(finalize(cu, c2))
        badf = _cmp(item["fin"], gf, ("ind", "key", "val"))
        if badf:
            out = {"ok": False, "bad": ["fin_" + b for b in badf], "got": gf}
    return out


def record(item):
    """C->S: item = {limit, cap0, kv: [[k,v]..]}; returns the step-by-step projected states."""
    cu = _mods()
    check_limit(cu, item["limit"])
    coo = new_coo(cu, item["cap0"])
    steps = []
    for k, v in item["kv"]:
        coo = append(cu, coo, k, v)
        p = proj(coo)
        p["k"], p["v"] = k, v
        steps.append(p)
    c2 = cu.CooArray(*[a.copy() for a in coo])
    fin = proj(finalize(cu, c2))
    # python-side conservation (independent of TLC, used for the runs at the production threshold)
    tot = {}
    for k, v in item["kv"]:
        tot[k] = tot.get(k, 0) + v
    got = {}
    for k, v in zip(fin["key"], fin["val"]):
        got[k] = got.get(k, 0) + v
    return {"steps": steps, "fin": fin, "conserved": tot == got and fin["key"] == sorted(set(fin["key"])),
            "rowcol_ok": all(s["rowcol_ok"] for s in steps) and fin["rowcol_ok"]}


def bulk(item):
    """Production-threshold run (no hook): many appends, only the final result is inspected.
    item = {cap0, n, nkeys, seed, pattern}"""
    cu = _mods()
    import numba
    rng = np.random.RandomState(item["seed"])
    n, nk = item["n"], item["nkeys"]
    if item["pattern"] == "periodic":
        ks = (np.arange(n) * 7919) % nk
    elif item["pattern"] == "blocks":
        ks = (np.arange(n) // 1000) % nk
    else:
        ks = rng.randint(0, nk, size=n)
    ks = ks.astype(np.int64)

    @numba.njit
    def drive(coo, ks, km):
        for k in ks:
            coo = cu.coo_append(coo, (np.int32(k // km), np.int32(k % km), np.float32(1.0), k))
        cu.coo_sum_duplicates(coo)
        cu.merge_all_sum_duplicates(coo)
        return coo

    km = 1 << 12
    coo = drive(new_coo(cu, item["cap0"]), ks, km)
    m = int(coo.ind[0])
    key, val = coo.key[:m], coo.val[:m]
    exp = np.bincount(ks, minlength=nk)
    ok_sorted = bool(np.all(np.diff(key) > 0))
    got = np.zeros(nk, dtype=np.int64)
    inr = (key >= 0) & (key < nk)
    np.add.at(got, key[inr], val[inr].astype(np.int64))
    rc = bool(np.all(coo.row[:m].astype(np.int64) * km + coo.col[:m] == key))
    return {"ok": bool(ok_sorted and inr.all() and np.array_equal(got, exp) and rc), "sorted": ok_sorted,
            "limit": int(cu.COO_QUICKSORT_LIMIT), "cap": int(coo.key.shape[0]), "n": n, "nkeys": nk,
            "lost": int(exp.sum() - got.sum()), "wrong_keys": int((got != exp).sum())}
