"""Replays SlidingWindow.tla instances into SlidingWindowTransformer / SequentialDifferenceTransformer."""
import numpy as np

from ._light import light


def seq_of(x):
    a = np.array([[(d + 1) * 3 ** p for d in range(x["D"])] for p in range(x["L"])], dtype=np.float64).reshape(x["L"], x["D"])
    return a[:, 0] if x["D"] == 1 else a


def run(item):
    light()
    from vectorizers.transformers.sliding_windows import SlidingWindowTransformer, SequentialDifferenceTransformer
    x = item["inst"]
    s = x["sample"]
    sample = None if s[0] == "none" else (int(s[1]) if s[0] == "int" else ((int(s[1]), int(s[2])) if s[0] == "pair" else np.array(s[1], dtype=np.int64)))   # an index *array*: a 2-element list/tuple is documented as (start, stride)
    k = x["kernel"]
    kernels = None if k[0] == "id" else ([("average",)] if k[0] == "average" else (
        [("differences", k[1], k[2], k[3])] if k[0] == "differences" else [("weight", np.array(k[1], dtype=np.float64))]))
    exp = np.array(item["windows"], dtype=np.float64).reshape(item["n"], -1) / float(item["den"])
    fails = []
    for fmt in (("array", "list") if item.get("both_formats") else ("array",)):
        data = seq_of(x)
        X = [data if fmt == "array" else data.tolist(), data]
        t = SlidingWindowTransformer(window_width=x["width"], window_stride=x["stride"], window_sample=sample, kernels=kernels,
                                     pad_width=x["pad"], pad_value=x["pv"])
        try:
            if fmt == "array" and x["L"] % 2 == 0:      # this object has a past
                past = [np.arange(x["width"] + 3, dtype=np.float64)] if x.get("D", 1) == 1 else None
                if past is not None:
                    t.fit(past)
                    t.transform(past)
            if fmt == "array" and x["L"] % 2 == 1 and x.get("D", 1) == 1:
                # the same object after a parameter sweep: used with another width / stride, then set_params and re-fitted
                t.set_params(window_width=x["width"] + 1, window_stride=x["stride"] + 1)
                try:
                    t.fit([np.arange(x["width"] + 4, dtype=np.float64)])
                    t.transform([np.arange(x["width"] + 4, dtype=np.float64)])
                except Exception:  # noqa
                    pass
                t.set_params(window_width=x["width"], window_stride=x["stride"])
            r = t.fit(X)
            if r is not t:
                fails.append({"what": "fit does not return self"})
            out = t.transform(X)
        except Exception as e:  # noqa
            fails.append({"what": "raised", "fmt": fmt, "exc": type(e).__name__ + ": " + str(e)[:160]})
            continue
        if len(out) != 2:
            fails.append({"what": "one result per sequence", "got": len(out)})
            continue
        for o in out:
            o = np.asarray(o, dtype=np.float64)
            if o.shape != exp.shape:
                fails.append({"what": "shape", "fmt": fmt, "got": list(o.shape), "expected": list(exp.shape)})
                break
            if exp.size and not np.allclose(o, exp, rtol=1e-9, atol=1e-9):
                fails.append({"what": "values", "fmt": fmt, "got": o.tolist()[:3], "expected": exp.tolist()[:3]})
                break
    if x.get("seqdiff"):
        sd = SequentialDifferenceTransformer(stride=x["width"] - 1)
        try:
            o = np.asarray(sd.fit([seq_of(x)]).transform([seq_of(x)])[0], dtype=np.float64)
            if o.shape != exp.shape or not np.allclose(o, exp):
                fails.append({"what": "SequentialDifferenceTransformer", "got": o.tolist()[:4], "shape": list(o.shape),
                              "expected": exp.tolist()[:4]})
            # the same object after a parameter sweep: fitted with another stride, re-parameterised (set_params), re-fitted
            sd2 = SequentialDifferenceTransformer(stride=1 if x["width"] - 1 != 1 else 2)
            sd2.fit([seq_of(x)])
            sd2.set_params(stride=x["width"] - 1)
            o2 = np.asarray(sd2.fit([seq_of(x)]).transform([seq_of(x)])[0], dtype=np.float64)
            if o2.shape != exp.shape or not np.allclose(o2, exp):
                fails.append({"what": "SequentialDifferenceTransformer re-fitted after set_params(stride)", "got": o2.tolist()[:4],
                              "shape": list(o2.shape), "expected": exp.tolist()[:4]})
        except Exception as e:  # noqa
            fails.append({"what": "SequentialDifferenceTransformer raised", "exc": type(e).__name__ + ": " + str(e)[:160]})
    return {"ok": not fails, "fails": fails[:4]}
