"""Replays SparseOps.tla / Dist.tla instances into vectorizers.distances; records axiom events for Trace_Dist.tla."""
import math

import numpy as np

from ._light import light

_d = {}


def D():
    light()
    if not _d:
        import vectorizers.distances as d
        _d["d"] = d
    return _d["d"]


def sv(v):
    return np.array(v[0], dtype=np.int32), np.array(v[1], dtype=np.float32)


def run_sparse(item):
    d = D()
    fails = []

    def args():
        (i1, d1), (i2, d2) = sv(item["a"]), sv(item["b"])
        return i1, d1, i2, d2

    def unchanged(name, a):
        (i1, d1), (i2, d2) = sv(item["a"]), sv(item["b"])
        if not (np.array_equal(a[0], i1) and np.array_equal(a[1], d1) and np.array_equal(a[2], i2) and np.array_equal(a[3], d2)):
            fails.append({"what": name + " mutated its arguments", "after": [x.tolist() for x in a]})

    def cmp(name, exp):
        a = args()
        got = getattr(d, name)(*a)
        gi, gd = [int(x) for x in got[0]], [float(x) for x in got[1]]
        ei, ed = [int(x) for x in exp[0]], [float(x) for x in exp[1]]
        if gi != ei or gd != ed:
            fails.append({"what": name, "got": [gi, gd], "expected": [ei, ed]})
        unchanged(name, a)
    cmp("sparse_sum", item["sum"])
    cmp("sparse_diff", item["diff"])
    cmp("sparse_mul", item["mul"])
    a = args()
    u = [int(x) for x in d.arr_union(a[0], a[2])]
    if u != item["union"]:
        fails.append({"what": "arr_union", "got": u, "expected": item["union"]})
    a = args()
    it = [int(x) for x in d.arr_intersect(a[0], a[2])]
    if it != item["inter"]:
        fails.append({"what": "arr_intersect", "got": it, "expected": item["inter"]})
    unchanged("arr_intersect", a)
    if item["du"]:
        a = args()
        g1, g2 = d.dense_union(*a)
        if [float(x) for x in g1] != [float(x) for x in item["du"][0]] or [float(x) for x in g2] != [float(x) for x in item["du"][1]]:
            fails.append({"what": "dense_union", "got": [g1.tolist(), g2.tolist()], "expected": item["du"]})
        unchanged("dense_union", a)
    return {"ok": not fails, "fails": fails[:3]}


def sparse_of(x):
    ind = np.nonzero(x)[0].astype(np.int32)
    return ind, x[ind].astype(np.float32)


PAIRS = [("hellinger", "sparse_hellinger"), ("total_variation", "sparse_total_variation"),
         ("jensen_shannon_divergence", "sparse_jensen_shannon_divergence"),
         ("symmetric_kl_divergence", "sparse_symmetric_kl_divergence"), ("kantorovich1d", None)]


def run_dist(item):
    """exact values (TV, K1, Hellinger) + axioms, under positive rescaling of either argument"""
    d = D()
    fails = []
    x0, y0 = np.array(item["x"], dtype=np.float64), np.array(item["y"], dtype=np.float64)
    tv, k1 = item["tv"][0] / item["tv"][1], item["k1"][0] / item["k1"][1]
    h2 = max(0.0, 1.0 - item["hs"] / math.sqrt(item["hn"]))
    for sx, sy in item.get("scales", [[1, 1]]):
        x, y = x0 * sx, y0 * sy
        for dense, sparse in PAIRS:
            f = getattr(d, dense)
            a, b = float(f(x.copy(), y.copy())), float(f(y.copy(), x.copy()))
            tag = {"f": dense, "scale": [sx, sy]}
            if not (math.isfinite(a) and math.isfinite(b)):
                fails.append(dict(tag, what="not finite", got=[a, b]))
                continue
            if a < -1e-9:
                fails.append(dict(tag, what="negative", got=a))
            if abs(a - b) > 1e-6 * max(1.0, abs(a)):
                fails.append(dict(tag, what="asymmetric", got=[a, b]))
            if item["prop"] and abs(a) > 1e-6:
                fails.append(dict(tag, what="non-zero on proportional arguments", got=a))
            if dense in ("hellinger", "total_variation") and (a > 1 + 1e-9):
                fails.append(dict(tag, what="outside [0,1]", got=a))
            exp = {"total_variation": tv, "kantorovich1d": k1, "hellinger": math.sqrt(h2)}.get(dense)
            if exp is not None and abs(a - exp) > 1e-6 + (3e-4 if dense == "hellinger" and h2 < 1e-6 else 0):
                fails.append(dict(tag, what="value", got=a, expected=exp))
            if sparse:
                g = getattr(d, sparse)
                (ix, dx), (iy, dy) = sparse_of(x), sparse_of(y)
                s = float(g(ix, dx, iy, dy))
                if not math.isfinite(s) or abs(s - a) > 2e-3 * max(1.0, abs(a)) * (1 if "hellinger" in dense else 0.05):
                    fails.append(dict(tag, what="sparse != dense", got=[s, a]))
    return {"ok": not fails, "fails": fails[:4]}


def record(item):
    """C->S: seeded random vectors (dimension 1..50, heavy tails, disjoint supports, single entries) -> axiom events"""
    d = D()
    rng = np.random.RandomState(item["seed"])
    ev = []
    FX = 10 ** 6
    for _ in range(item["n"]):
        dim = rng.randint(1, 51)

        def vec():
            style = rng.randint(5)
            if style == 0:
                v = np.zeros(dim)
                v[rng.randint(dim)] = rng.rand() * 10 + 0.1
            elif style == 1:
                v = rng.pareto(1.1, size=dim)
            elif style == 2:
                v = rng.rand(dim) * (rng.rand(dim) < 0.3)
            else:
                v = rng.rand(dim)
            if v.sum() <= 0:
                v[rng.randint(dim)] = 1.0
            return v.astype(np.float64) * 10.0 ** rng.randint(-3, 7)
        x, y, z = vec(), vec(), vec()
        if rng.rand() < 0.2 and dim > 1:      # disjoint supports
            y = y * (x == 0)
            if y.sum() <= 0:
                y[np.argmin(x)] = 1.0
                x[np.argmin(x)] = 0.0 if x.sum() > x.min() else x.min()
        prop = rng.rand() < 0.2
        if prop:
            y = x * float(rng.choice([2, 3, 5, 7, 1 / 3]))
        for dense, sparse in PAIRS:
            f = getattr(d, dense)
            vals = [float(f(a.copy(), b.copy())) for a, b in ((x, y), (y, x), (x, z), (y, z))]
            if sparse:
                (ix, dx), (iy, dy) = sparse_of(x), sparse_of(y)
                sp = float(getattr(d, sparse)(ix, dx, iy, dy))
            else:
                sp = vals[0]
            fin = all(math.isfinite(v) for v in vals + [sp])
            cap = lambda v: int(round(min(max(v, -2000.0), 2000.0) * FX)) if math.isfinite(v) else 0  # noqa
            ev.append({"f": dense, "finite": fin, "dxy": cap(vals[0]), "dyx": cap(vals[1]), "dxz": cap(vals[2]), "dyz": cap(vals[3]),
                       "sp": cap(sp), "prop": bool(prop), "metric": dense in ("hellinger", "total_variation", "kantorovich1d"),
                       "unit": dense in ("hellinger", "total_variation")})
    return {"events": ev}
