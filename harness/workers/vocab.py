"""Replays Vocab.tla instances into the real preprocessing functions and vectorizer classes."""
from ._light import light
from ..vocab_cfg import NAMES, py_kwargs

_f = {}


def _mods():
    light()
    if not _f:
        import vectorizers.preprocessing as pp
        _f["pp"] = pp
    return _f["pp"]


def _expected(item):
    return {NAMES[i]: ix for i, ix in enumerate(item["index"]) if ix >= 0}


def _kw_fn(kw):
    k = {a: kw[a] for a in ("min_occurrences", "max_occurrences", "min_frequency", "max_frequency",
                            "min_document_occurrences", "max_document_occurrences", "min_document_frequency",
                            "max_document_frequency", "max_unique_tokens")}
    k["ignored_tokens"] = kw["excluded"]
    k["excluded_token_regex"] = kw["regex"]
    return k


def _kw_cls(kw):
    k = {a: kw[a] for a in ("min_occurrences", "max_occurrences", "min_frequency", "max_frequency",
                            "min_document_occurrences", "max_document_occurrences", "min_document_frequency",
                            "max_document_frequency", "max_unique_tokens")}
    k["excluded_tokens"] = kw["excluded"]
    k["excluded_token_regex"] = kw["regex"]
    return k


def run(item):
    """item: {corpus, cfg, index, classes: [..]}"""
    pp = _mods()
    corpus = item["corpus"]
    docs = [[NAMES[t] for t in d] for d in corpus]
    kw = py_kwargs(item["cfg"], corpus)
    exp = _expected(item)
    fails = []

    def chk(name, got):
        if dict(got) != exp:
            fails.append({"via": name, "got": dict(got), "expected": exp})

    seqs, d, inv, freq = pp.preprocess_token_sequences(docs, None, **_kw_fn(kw))
    chk("preprocess_token_sequences", d)
    if inv != {v: k for k, v in exp.items()}:
        fails.append({"via": "inverse dictionary", "got": {str(k): v for k, v in inv.items()}})
    # kept sequences: removed tokens are deleted, others mapped to their index
    want = [[exp[t] for t in dd if t in exp] for dd in docs]
    if [list(map(int, s)) for s in seqs] != want:
        fails.append({"via": "pruned sequences", "got": [list(map(int, s)) for s in seqs], "expected": want})
    tdocs = [[(t, float(i)) for i, t in enumerate(dd)] for dd in docs]
    chk("preprocess_timed_token_sequences", pp.preprocess_timed_token_sequences(tdocs, None, **_kw_fn(kw))[1])
    mdocs = [[list(dd)] for dd in docs]   # one multiset per document (an empty first document cannot be format-sniffed)
    chk("preprocess_multi_token_sequences", pp.preprocess_multi_token_sequences(mdocs, None, **_kw_fn(kw))[1])
    # a supplied dictionary is used as given
    given = {"xa1": 0, "a1": 1}
    chk2 = pp.preprocess_token_sequences(docs, dict(given), **_kw_fn(kw))[1]
    if dict(chk2) != given:
        fails.append({"via": "given token_dictionary", "got": dict(chk2)})
    chk3 = pp.preprocess_token_sequences(docs, dict(given), masking="[M]", **_kw_fn(kw))[1]
    if dict(chk3) != dict(given, **{"[M]": 2}):
        fails.append({"via": "given token_dictionary + mask", "got": dict(chk3)})
    for cname in item.get("classes", []):
        try:
            if cname == "token":
                from vectorizers.token_cooccurrence_vectorizer import TokenCooccurrenceVectorizer as C
                m = C(window_radii=1, **_kw_cls(kw)).fit(docs)
                got = m.token_label_dictionary_
            elif cname == "ngram":
                from vectorizers.ngram_vectorizer import NgramVectorizer as C
                m = C(ngram_size=1, **_kw_cls(kw)).fit(docs)
                got = m._token_dictionary_
            elif cname == "skipgram":
                from vectorizers.skip_gram_vectorizer import SkipgramVectorizer as C
                m = C(window_radius=1, **_kw_fn(kw)).fit(docs)
                got = m._token_dictionary_
            else:
                continue
            chk(cname, got)
        except ValueError as e:
            if exp:
                fails.append({"via": cname, "exc": "ValueError: " + str(e)[:200]})
        except Exception as e:  # noqa
            fails.append({"via": cname, "exc": type(e).__name__ + ": " + str(e)[:200]})
    return {"ok": not fails, "fails": fails[:4]}
