"""Replays Ngram.tla / Skipgram.tla / EdgeList.tla instances into the real vectorizers (label-wise comparison)."""
import numpy as np

from ._light import light
from ..cooc_cfg import TOKS

MASKS = "[M]"
UNSEEN = "zz"



def _past(m, item, A, B):
    """a third of the instances use an estimator object with a past: fitted on other data and used before the fit under test
    (a re-fitted object must behave like a fresh one); a past that the configuration rejects is no past"""
    import json
    if len(json.dumps(item.get("corpus", item.get("train", "")), sort_keys=True)) % 3 != 1:
        return
    try:
        m.fit(A)
        m.transform(B)
    except Exception:  # noqa
        pass

def name(t, V):
    return MASKS if t == V else (UNSEEN if t == V + 1 else TOKS[t])


def docs(c, V):
    return [[name(t, V) for t in d] for d in c]


def tok_kwargs(tok, V, cls="ngram"):
    kw = {}
    for k, a in (("minOcc", "min_occurrences"), ("maxOcc", "max_occurrences"), ("minDocOcc", "min_document_occurrences"),
                 ("maxDocOcc", "max_document_occurrences"), ("maxUnique", "max_unique_tokens")):
        if tok[k] != -1:
            kw[a] = tok[k]
    if tok["excluded"]:
        kw["ignored_tokens" if cls == "skipgram" else "excluded_tokens"] = set(TOKS[i] for i in tok["excluded"])
    return kw


def label(g, V, n):
    return name(g[0], V) if n == 1 else tuple(name(t, V) for t in g)


def mat_cells(M, inv):
    M = M.tocoo()
    out = {}
    for r, c, v in zip(M.row, M.col, M.data):
        if v != 0:
            k = (int(r), inv[int(c)])
            out[k] = out.get(k, 0) + float(v)
    return out


def exp_cells(cells, V, n, off=1):
    return {(e["d"] - off, label(e["g"], V, n)): float(e["v"]) for e in cells}


def diff(exp, got, tol=0.0, full=False):
    bad = []
    for k in set(exp) | set(got):
        e, g = exp.get(k, 0.0), got.get(k, 0.0)
        if abs(e - g) > tol + 1e-6 * abs(e):
            bad.append([k if full else str(k), e, g])
    return bad if full else sorted(bad)[:6]


def unigram_zero_only(bad):
    """every differing cell is a 1-gram column (label is a 1-tuple) that the code left at zero"""
    return bool(bad) and all(isinstance(k[1], tuple) and len(k[1]) == 1 and g == 0 for k, e, g in bad)


def run_ngram(item):
    light()
    from vectorizers.ngram_vectorizer import NgramVectorizer
    V, f = item["V"], item["cfg"]
    n = f["n"]
    kw = dict(ngram_size=n, ngram_behaviour=f["mode"], mask_string=MASKS if f["mask"] else None)
    kw.update(tok_kwargs(f["tok"], V))
    X, Xt = docs(item["corpus"], V), docs(item["test"], V)
    fails = []
    exp_cols = {label(g, V, n): ix for g, ix in item["colindex"]}
    try:
        m = NgramVectorizer(**kw)
        M = m.fit_transform(X)
    except (ValueError, ZeroDivisionError) as e:
        if not item["hasgrams"]:
            return {"ok": True, "precondition": "no n-gram exists after token pruning"}
        return {"ok": False, "fails": [{"what": "fit raised", "exc": type(e).__name__ + ": " + str(e)[:200]}]}
    if dict(m.column_label_dictionary_) != exp_cols:
        fails.append({"what": "columns", "got": {str(k): v for k, v in m.column_label_dictionary_.items()},
                      "expected": {str(k): v for k, v in exp_cols.items()}})
    else:
        inv = {v: k for k, v in m.column_label_dictionary_.items()}
        if M.shape != (len(X), len(exp_cols)):
            fails.append({"what": "train shape", "got": list(M.shape)})
        sig = []
        b = diff(exp_cells(item["train"], V, n), mat_cells(M, inv), full=True)
        if b:
            fails.append({"what": "train cells", "bad": [[str(k), e, g] for k, e, g in b][:6]})
            sig.append(unigram_zero_only(b))
        m2 = NgramVectorizer(**kw)
        _past(m2, item, [["q", "r", "q", "q", "r"], ["r", "q"]], [["q", "r"], []])
        if m2.fit(X) is not m2:
            fails.append({"what": "fit does not return self"})
        for nm, data, exp in (("transform(X')", Xt, item["trans"]), ("transform(X)", X, item["train"])):
            try:
                T = m2.transform(data)
            except Exception as e:  # noqa
                fails.append({"what": nm + " raised", "exc": type(e).__name__ + ": " + str(e)[:200]})
                continue
            if T.shape != (len(data), len(exp_cols)):
                fails.append({"what": nm + " shape", "got": list(T.shape), "expected": [len(data), len(exp_cols)]})
            b = diff(exp_cells(exp, V, n), mat_cells(T, inv), full=True)
            if b:
                fails.append({"what": nm + " cells", "bad": [[str(k), e, g] for k, e, g in b][:6]})
                sig.append(unigram_zero_only(b))
    out = {"ok": not fails, "fails": fails[:4]}
    if fails and all(f["what"].endswith("cells") for f in fails) and sig and all(sig) and f_is_subgrams(item):
        out["signature"] = "subgrams-unigram-columns-zero"
    return out


def f_is_subgrams(item):
    return item["cfg"]["mode"] == "subgrams" and item["cfg"]["n"] > 1


def run_merge(item):
    """(a + b) for unigram models fitted on corpus / test restricted to the training alphabet"""
    light()
    from vectorizers.ngram_vectorizer import NgramVectorizer
    V = item["V"]
    A = docs(item["corpus"], V)
    B = [[t for t in d if t != UNSEEN] for d in docs(item["test"], V)]
    if not any(B):
        return {"ok": True, "skipped": "empty second corpus"}
    a, b = NgramVectorizer().fit(A), NgramVectorizer().fit(B)
    c = a + b
    ref = NgramVectorizer().fit(A + B)
    fails = []
    if set(c.column_label_dictionary_) != set(ref.column_label_dictionary_):
        fails.append({"what": "merged columns", "got": sorted(c.column_label_dictionary_), "expected": sorted(ref.column_label_dictionary_)})
    if sorted(c.column_label_dictionary_.values()) != list(range(len(c.column_label_dictionary_))):
        fails.append({"what": "merged column indices not 0..n-1"})
    inv_c = {v: k for k, v in c.column_label_dictionary_.items()}
    inv_r = {v: k for k, v in ref.column_label_dictionary_.items()}
    bad = diff(mat_cells(ref._train_matrix, inv_r), mat_cells(c._train_matrix, inv_c))
    if bad or c._train_matrix.shape != ref._train_matrix.shape:
        fails.append({"what": "merged training matrix", "bad": bad, "shape": list(c._train_matrix.shape)})
    Y = A + docs(item["test"], V)
    try:
        T = c.transform(Y)
        bad = diff(mat_cells(ref.transform(Y), inv_r), mat_cells(T, inv_c))
        # independent expectation: plain token counts over the union vocabulary
        want = {}
        for i, d in enumerate(Y):
            for t in d:
                if t in ref.column_label_dictionary_:
                    want[(i, t)] = want.get((i, t), 0.0) + 1.0
        bad2 = diff(want, mat_cells(T, inv_c))
        if bad or bad2 or T.shape != (len(Y), len(inv_r)):
            fails.append({"what": "merged transform", "bad": bad2 or bad, "shape": list(T.shape)})
    except Exception as e:  # noqa
        fails.append({"what": "merged transform raised", "exc": type(e).__name__ + ": " + str(e)[:200]})
    # "all pairs of fitted unigram models": an operand of one sum is still a fitted model afterwards - sum it again with a third
    # model, on either side, and compare with a fit on the concatenation; its own transform must not have changed either
    try:
        E = [list(reversed(d)) + [UNSEEN] for d in B] + [["q", "q"]]
        e = NgramVectorizer().fit(E)
        before = mat_cells(NgramVectorizer().fit(A).transform(Y), {v: k for k, v in NgramVectorizer().fit(A).column_label_dictionary_.items()})
        for nm, left, right, docs_ in (("a + e after a + b", a, e, A + E), ("e + a after a + b", e, a, E + A)):
            d2 = left + right
            r2 = NgramVectorizer().fit(docs_)
            i_d = {v: k for k, v in d2.column_label_dictionary_.items()}
            i_r = {v: k for k, v in r2.column_label_dictionary_.items()}
            if set(d2.column_label_dictionary_) != set(r2.column_label_dictionary_):
                fails.append({"what": nm + ": columns", "got": sorted(map(str, d2.column_label_dictionary_)), "expected": sorted(map(str, r2.column_label_dictionary_))})
            elif diff(mat_cells(r2._train_matrix, i_r), mat_cells(d2._train_matrix, i_d)) or d2._train_matrix.shape != r2._train_matrix.shape:
                fails.append({"what": nm + ": training matrix"})
            elif diff(mat_cells(r2.transform(Y), i_r), mat_cells(d2.transform(Y), i_d)):
                fails.append({"what": nm + ": transform"})
        after = mat_cells(a.transform(Y), {v: k for k, v in a.column_label_dictionary_.items()})
        if a.transform(Y).shape[1] != len(NgramVectorizer().fit(A).column_label_dictionary_) or diff(before, after):
            fails.append({"what": "an operand of '+' no longer transforms as before"})
    except Exception as ex:  # noqa
        fails.append({"what": "re-used operand raised", "exc": type(ex).__name__ + ": " + str(ex)[:200]})
    return {"ok": not fails, "fails": fails}


def run_skipgram(item):
    light()
    from vectorizers.skip_gram_vectorizer import SkipgramVectorizer
    V, f = item["V"], item["cfg"]
    kw = dict(window_radius=f["r"], kernel_function=f["kernel"])
    kw.update(tok_kwargs(f["tok"], V, "skipgram"))
    X, Xt = docs(item["corpus"], V), docs(item["test"], V)
    den = float(item["den"])
    lab = lambda g: (name(g[0], V), name(g[1], V))  # noqa
    exp_cols = {lab(g): ix for g, ix in item["colindex"]}

    def cells(cs):
        return {(e["d"] - 1, lab(e["g"])): e["v"] / den for e in cs}
    fails = []
    try:
        m = SkipgramVectorizer(**kw)
        M = m.fit_transform(X)
    except (ValueError, IndexError) as e:
        if not item["kept"]:
            return {"ok": True, "precondition": "empty kept vocabulary"}
        return {"ok": False, "fails": [{"what": "fit raised", "exc": type(e).__name__ + ": " + str(e)[:200]}]}
    if dict(m.column_label_dictionary_) != exp_cols:
        fails.append({"what": "columns", "got": {str(k): v for k, v in m.column_label_dictionary_.items()},
                      "expected": {str(k): v for k, v in exp_cols.items()}})
    else:
        inv = {v: k for k, v in m.column_label_dictionary_.items()}
        if M.shape != (len(X), len(exp_cols)):
            fails.append({"what": "train shape", "got": list(M.shape), "expected": [len(X), len(exp_cols)]})
        b = diff(cells(item["train"]), mat_cells(M, inv), 1e-6)
        if b:
            fails.append({"what": "train cells", "bad": b})
        m2 = SkipgramVectorizer(**kw)
        _past(m2, item, [["q", "r", "q", "q", "r"], ["r", "q"]], [["q", "r"], []])
        if m2.fit(X) is not m2:
            fails.append({"what": "fit does not return self"})
        for nm, data, exp in (("transform(X')", Xt, item["trans"]), ("transform(X)", X, item["train"])):
            try:
                T = m2.transform(data)
            except Exception as e:  # noqa
                fails.append({"what": nm + " raised", "exc": type(e).__name__ + ": " + str(e)[:200]})
                continue
            if T.shape != (len(data), len(exp_cols)):
                fails.append({"what": nm + " shape", "got": list(T.shape), "expected": [len(data), len(exp_cols)]})
            else:
                b = diff(cells(exp), mat_cells(T, inv), 1e-6)
                if b:
                    fails.append({"what": nm + " cells", "bad": b})
    return {"ok": not fails, "fails": fails[:4]}


def run_edgelist(item):
    light()
    from vectorizers.edge_list_vectorizer import EdgeListVectorizer
    f = item["cfg"]
    fails = []
    for style in item.get("styles", ["str"]):
        L = (lambda i: "n%d" % i) if style == "str" else (lambda i: int(i) + 10)
        kw = dict(joint_space=bool(f["joint"]))
        if f["rowdict"]:
            kw["row_label_dictionary"] = {L(a): b for a, b in f["rowdict"]}
        if f["coldict"]:
            kw["column_label_dictionary"] = {L(a): b for a, b in f["coldict"]}
        E = [(L(r), L(c), v) for r, c, v in item["edges"]]
        Et = [(L(r), L(c), v) for r, c, v in item["test"]]
        rows = {L(a): b for a, b in item["rows"]}
        cols = {L(a): b for a, b in item["cols"]}
        shape = tuple(item["shape"])

        def cells(cs):
            return {(L(e["r"]), L(e["c"])): float(e["v"]) for e in cs}

        def obs(M, m):
            M = M.tocoo()
            ri = {v: k for k, v in m.row_label_dictionary_.items()}
            ci_ = {v: k for k, v in m.column_label_dictionary_.items()}
            out = {}
            for r, c, v in zip(M.row, M.col, M.data):
                if v != 0:
                    out[(ri[int(r)], ci_[int(c)])] = out.get((ri[int(r)], ci_[int(c)]), 0.0) + float(v)
            return out
        try:
            m = EdgeListVectorizer(**kw)
            M = m.fit_transform(E)
        except Exception as e:  # noqa
            fails.append({"what": "fit raised", "style": style, "exc": type(e).__name__ + ": " + str(e)[:200]})
            continue
        if dict(m.row_label_dictionary_) != rows or dict(m.column_label_dictionary_) != cols:
            fails.append({"what": "dictionaries", "style": style, "rows": {str(k): v for k, v in m.row_label_dictionary_.items()},
                          "cols": {str(k): v for k, v in m.column_label_dictionary_.items()}})
            continue
        if M.shape != shape:
            fails.append({"what": "train shape", "style": style, "got": list(M.shape), "expected": list(shape)})
        b = diff(cells(item["train"]), obs(M, m))
        if b:
            fails.append({"what": "train cells", "style": style, "bad": b})
        m2 = EdgeListVectorizer(**kw)
        _past(m2, item, [("u", "v", 1), ("u", "w", 2), ("x", "v", 1)], [("u", "v", 3)])
        if m2.fit(E) is not m2:
            fails.append({"what": "fit does not return self"})
        for nm, data, exp in (("transform(X')", Et, item["trans"]), ("transform(X)", E, item["train"])):
            try:
                T = m2.transform(data)
            except Exception as e:  # noqa
                fails.append({"what": nm + " raised", "style": style, "exc": type(e).__name__ + ": " + str(e)[:200]})
                continue
            if T.shape != shape:
                fails.append({"what": nm + " shape", "style": style, "got": list(T.shape), "expected": list(shape)})
            else:
                b = diff(cells(exp), obs(T, m2))
                if b:
                    fails.append({"what": nm + " cells", "style": style, "bad": b})
    return {"ok": not fails, "fails": fails[:4]}
