"""C05 - the learned vocabulary is exactly the tokens meeting every pruning constraint."""
import json
import random
from concurrent.futures import ThreadPoolExecutor

from .. import tlc, vocab_cfg
from ..common import MachineryError, pool_map

INVS = ["TopKSatisfiesProperty", "IndexIsBijection", "PermInvariant", "BoundaryKept", "Token0Kept"]


def emit(ctx, cfgs, consts, what, shards=8):
    shards = max(1, min(shards, len(cfgs)))
    groups = [list(range(i, len(cfgs), shards)) for i in range(shards)]

    def one(g):
        c = dict(consts, Cfgs=[vocab_cfg.tla_cfg(cfgs[i]) for i in g], EMIT=True)
        return g, tlc.run_tlc("Vocab", c, invariants=INVS + ["EmitInv"], workers=1, timeout=3000)
    with ThreadPoolExecutor(max_workers=shards) as ex:
        rs = list(ex.map(one, groups))
    items = []
    for g, r in rs:
        ctx.add_tlc(r, what)
        ctx.tlc_violation(r, what)
        for p in r.prints:
            items.append(dict(p, ci=g[p["ci"] - 1], cfg=cfgs[g[p["ci"] - 1]]))
    return items


def judge(ctx, items, res, part):
    for it, r in zip(items, res):
        ctx.evaluations += 1
        ctx.traces += 1
        ctx.count(part)
        if len(it["kept"]) < len(set(t for d in it["corpus"] for t in d)):
            ctx.nontriv({"c": it["corpus"], "ci": it["ci"], "p": part})
        ident = {"part": part, "corpus": it["corpus"] if len(str(it["corpus"])) < 200 else "boundary c=%d total=%d" % (
            sum(1 for d in it["corpus"] if d == [0]), len(it["corpus"])),
                 "cfg": {k: v for k, v in it["cfg"].items() if v not in (-1, (-1, 1), ())}}
        if r is None or "crash" in r or "exc" in r:
            ctx.violation(dict(ident, kind="crash-or-exception", exc=(r or {}).get("exc")), {"item": it, "result": r})
        elif not r["ok"]:
            ctx.violation(dict(ident, kind="vocabulary-mismatch", via=[f.get("via") for f in r["fails"]]),
                          {"item": it, "result": r})


def run(ctx):
    rng = random.Random(ctx.seed)
    # family 1: all corpora over 3 tokens (<= 2 docs of <= 3 tokens) x pruning configurations
    cfgs = vocab_cfg.build_cfgs(ctx.seed + 3, ctx.pick(48, 160))
    items = emit(ctx, cfgs, dict(V=3, MaxLen=3, MaxDocs=2, Boundary=False, MaxTotal=1), "Vocab exhaustive V=3")
    if not ctx.quick:
        # three documents (document-frequency bounds with a 1/3, 2/3 grid): shorter documents, a third of the configurations
        items += emit(ctx, cfgs[::3], dict(V=3, MaxLen=2, MaxDocs=3, Boundary=False, MaxTotal=1), "Vocab exhaustive V=3, 3 docs")
    if len(items) < 1000:
        raise MachineryError("Vocab emitted too few instances")
    for it in items:
        it["classes"] = ["ngram"] if rng.random() < 0.06 else []
        if rng.random() < 0.01:
            it["classes"] = ["token", "skipgram", "ngram"]
    if ctx.quick and len(items) > 15000:
        ctx.exhaustive = False
        items = rng.sample(items, 15000)
    ctx.log("vocab instances:", len(items))
    res = pool_map("vocab", "run", items, min_chunk=500)
    judge(ctx, items, res, "exhaustive")
    ctx.sample({"corpus": items[len(items) // 2]["corpus"], "cfg": items[len(items) // 2]["cfg"],
                "expected_kept": items[len(items) // 2]["kept"]})
    # family 2: every (count, total) pair up to a bound, the bound sitting exactly on the count / frequency
    bc = vocab_cfg.boundary_cfgs()
    items = emit(ctx, bc, dict(V=2, MaxLen=1, MaxDocs=1, Boundary=True, MaxTotal=ctx.pick(40, 150)),
                 "Vocab boundary (count,total) pairs", shards=10)
    ctx.log("boundary instances:", len(items))
    res = pool_map("vocab", "run", items, min_chunk=500)
    judge(ctx, items, res, "boundary")
    ctx.sample({"boundary": "c=%d total=%d" % (sum(1 for d in items[77]["corpus"] if d == [0]), len(items[77]["corpus"])),
                "cfg": items[77]["cfg"], "expected_kept": items[77]["kept"]})
    ctx.assumptions += ["tokens are strings 'a1','a1x','xa1' so that regex fullmatch differs from match/search",
                        "the max_unique_tokens clause is judged by the stated relation (TopKOK); equality with the "
                        "code's tie handling (TopK) is what the replay compares and is reported as such"]
    return ctx.finish(
        level="model_checking",
        rule="one case per (corpus, pruning configuration) enumerated by TLC from Vocab.tla and replayed through the "
             "three preprocess_* functions (and a sample through Ngram/Skipgram/Token classes); non-trivial = at least "
             "one present token is pruned")


def replay(ctx, rep):
    res = pool_map("vocab", "run", [rep["detail"]["item"]])
    print(json.dumps(res[0])[:3000])
    return 0 if res[0].get("ok") else 1
