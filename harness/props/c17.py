"""C17 - information weights are KL divergences and transform is a fixed column scaling."""
import json
import random

from .. import tlc
from ..common import MachineryError, pool_map

E = tlc.TLAExpr
NONE = dict(Bases=[], NR=1, NC=1, MaxLen=1, MaxSteps=0)


def judge(ctx, items, res, part, key):
    for it, r in zip(items, res):
        ctx.evaluations += 1
        ctx.traces += 1
        ctx.count(part)
        ctx.nontriv({"p": part, "k": key(it)})
        ident = dict(part=part, **key(it))
        if r is None or "crash" in r or "exc" in r:
            ctx.violation(dict(ident, kind="crash-or-exception", exc=(r or {}).get("exc")), {"item": it, "result": r})
        elif not r["ok"]:
            ctx.violation(dict(ident, kind="mismatch", what=sorted(set(str(f.get("what", "value")) for f in r["fails"]))), {"item": it, "result": r})


def part_dyadic(ctx):
    items = []
    for rows, dmax in ctx.pick([(2, 8), (3, 6)], [(2, 12), (3, 8), (4, 3)]):
        r = tlc.run_tlc("InfoWeight", dict(MODE="dyadic", DRows=rows, DMax=dmax, Strengths=E("{1,2,4,8}"), EMIT=True, **NONE),
                        invariants=["NonNegativeKL", "EmitInv"], workers=1, view="view", timeout=3000, heap="6g")
        ctx.add_tlc(r, "InfoWeight.tla dyadic search rows=%d max=%d" % (rows, dmax))
        ctx.tlc_violation(r, "InfoWeight dyadic")
        items += r.prints
    if len(items) < 50:
        raise MachineryError("dyadic search found too few columns (%d)" % len(items))
    ctx.log("dyadic columns found by TLC:", len(items))
    res = pool_map("iw", "dyadic", items, nproc=6, min_chunk=20)
    judge(ctx, items, res, "dyadic", lambda it: {"x": it["x"], "col2": it["y"], "s": it["s"]})
    ctx.sample({"part": "dyadic", "x": items[0]["x"], "filler": items[0]["y"], "prior_strength": items[0]["s"], "k": items[0]["k"],
                "weight_over_ln2": items[0]["w"]})


BASES = [[[1, 1, 2], [2, 2, 1], [3, 1, 1], [1, 3, 4], [3, 3, 2]], [[1, 1, 1], [2, 1, 3], [2, 3, 2], [3, 2, 5]],
         [[1, 2, 3], [2, 2, 3], [3, 2, 3], [1, 1, 1]], [[2, 1, 4], [2, 3, 1], [3, 3, 2]]]      # the last one has an empty row and column


def part_encodings(ctx):
    rng = random.Random(ctx.seed)
    r = tlc.run_tlc("InfoWeight", dict(MODE="encodings", Bases=BASES, NR=3, NC=3, MaxLen=7, MaxSteps=ctx.pick(2, 3), DRows=1, DMax=1,
                                       Strengths=E("{1}"), EMIT=True), invariants=["SameMatrix", "NonNegative", "EmitInv"], workers=1,
                    view="view", timeout=3000, heap="6g")
    ctx.add_tlc(r, "InfoWeight.tla encodings")
    ctx.tlc_violation(r, "InfoWeight encodings")
    by = {}
    for p in r.prints:
        by.setdefault(p["bi"], []).append(p["enc"])
    if len(by) != len(BASES):
        raise MachineryError("encodings missing for some base matrix")
    items = []
    for bi, encs in by.items():
        rng.shuffle(encs)
        for k in range(0, min(len(encs), ctx.pick(60, 600)), 6):
            items.append(dict(bi=bi, encs=[BASES[bi - 1]] + encs[k:k + 6], nr=3, nc=3, fmts=["coo", "csr", "csc", "csc_unsorted", "lil", "dense"],
                              perm_r=rng.sample(range(3), 3), perm_c=rng.sample(range(3), 3)))
    ctx.log("encoding groups:", len(items), "from", len(r.prints), "encodings")
    res = pool_map("iw", "encodings", items, nproc=8, min_chunk=4)
    judge(ctx, items, res, "encodings", lambda it: {"bi": it["bi"], "first": it["encs"][1]})
    ctx.sample({"part": "encodings", "base": BASES[0], "re-encodings": items[0]["encs"][1:3]})
    sc = [dict(enc=rng.choice(by[bi]), nr=3, nc=3, seed=ctx.seed + i, y=(None if i % 2 else [0, 1, 0])) for i, bi in
          enumerate([1, 2, 3] * ctx.pick(4, 20))]
    # columns whose raw weight is 0 or slightly negative (a column distributed like the row masses; the approximate prior with a
    # strong prior on a column concentrated on the heaviest rows): the learned weight must still be finite and non-negative for
    # every weight_power
    import numpy as np
    kws = [dict(approx_prior=True, prior_strength=5.0, weight_power=1.0), dict(approx_prior=True, prior_strength=5.0, weight_power=0.5),
           dict(approx_prior=False, prior_strength=0.5, weight_power=1.0), dict(approx_prior=False, prior_strength=0.5, weight_power=1.5),
           dict(approx_prior=False, prior_strength=0.5, weight_power=3.0)]
    r0 = np.random.RandomState(0)
    heavy = np.zeros((23, 4))
    heavy[:3, 0] = [30, 30, 30]
    heavy[:3, 1] = [20, 25, 30]
    heavy[:3, 2] = [25, 20, 15]
    heavy[3:, 3] = 1
    heavy[3:, 2] += r0.randint(0, 2, size=20)
    sc.append(dict(matrix=heavy.tolist(), kws=kws, seed=ctx.seed, y=None, enc="heavy rows"))
    # every column distributed like the row masses (rank one): all raw weights are 0 - the learned weights must not become 0/0
    sc.append(dict(matrix=[[1, 2], [2, 4], [3, 6]], kws=kws + [dict()], seed=ctx.seed, y=None, enc="rank one"))
    sc.append(dict(matrix=[[0, 0, 0, 0], [0, 3, 2, 0], [0, 3, 2, 0]], kws=kws + [dict(approx_prior=False)], seed=ctx.seed, y=None,
                   enc="rank one with an empty row and empty columns"))
    sc.append(dict(matrix=[[0, 3, 2, 0], [0, 3, 2, 0], [0, 6, 4, 0]], kws=kws, seed=ctx.seed, y=[0, 1, 0], enc="rank one, supervised"))
    for k in range(ctx.pick(12, 60)):
        rk = np.random.RandomState(k)
        A = rk.randint(0, 6, size=(4, 2)).astype(float)
        A[A.sum(1) == 0, 0] = 1
        sc.append(dict(matrix=np.hstack([A, A.sum(1, keepdims=True)]).tolist(), kws=kws, seed=ctx.seed + k, y=None, enc="total column %d" % k))
    res = pool_map("iw", "scaling", sc, nproc=4, min_chunk=3)
    judge(ctx, sc, res, "column_scaling", lambda it: {"enc": it["enc"], "supervised": it["y"] is not None})


PARTS = [("dyadic", part_dyadic), ("encodings", part_encodings)]


def run(ctx):
    for name, fn in PARTS:
        if ctx.only and name not in ctx.only:
            continue
        ctx.log("part", name)
        fn(ctx)
    ctx.exhaustive = False
    ctx.assumptions += ["the equality 'weight = KL divergence' is exact on the TLC-searched dyadic family only (elsewhere it needs ln); "
                        "finiteness, non-negativity, encoding independence and the permutation laws are checked on general matrices"]
    return ctx.finish(
        level="model_checking",
        rule="dyadic: one case per (count column, filler column, prior strength) found by TLC for which every posterior/baseline ratio is "
             "a power of two, weight compared with ln2 * num/den in four storage formats; encodings: one case per group of re-encodings "
             "(reordered triples, explicit zeros, split duplicates; COO/CSR/CSC/unsorted CSC/LIL/dense) of a base matrix that TLC proved "
             "to denote the same matrix; column scaling: fitted transformers on small integer matrices")


def replay(ctx, rep):
    it = rep["detail"]["item"]
    fn = {"dyadic": "dyadic", "encodings": "encodings", "column_scaling": "scaling"}[rep["ident"]["part"]]
    res = pool_map("iw", fn, [it])
    print(json.dumps(res[0])[:3000])
    return 0 if res[0].get("ok") else 1
