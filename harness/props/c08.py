"""C08 - Wasserstein embeddings depend only on the measure, not on its encoding."""
import json
import random

from .. import protocol, tlc
from ..common import MachineryError, pool_map

E = tlc.TLAExpr
BASES = [[[1, 2], [2, 1]], [[1, 1], [3, 3], [4, 1]], [[2, 4], [3, 1]], [[1, 1], [2, 1], [3, 1], [4, 1]], [[4, 3], [1, 2]], [[3, 2], [2, 2], [1, 1]]]


def call(op, b, knob=0):
    return {"op": op, "b": b, "knob": knob, "expect_ok": True}


def run(ctx):
    rng = random.Random(ctx.seed)
    r = tlc.run_tlc("Measure", dict(Bases=BASES, NPoints=4, MaxLen=5, MaxSteps=ctx.pick(2, 3), Scales=E("{2,3}"), EMIT=True),
                    invariants=["Invariant", "BasesDistinct", "EmitInv"], workers=1, view="view", timeout=3000, heap="6g")
    ctx.add_tlc(r, "Measure.tla re-encoding group")
    ctx.tlc_violation(r, "Measure invariants")
    encs = [(p["bi"], p["enc"]) for p in r.prints]
    if len(encs) < 100:
        raise MachineryError("Measure.tla emitted too few encodings")
    by = {}
    for bi, e in encs:
        by.setdefault(bi, []).append(e)
    # pool: items 1..6 are the base encodings (the fit batch), then a sample of re-encodings of every measure
    pool, idmap = [list(b) for b in BASES], {}
    per = ctx.pick(10, 60)
    for bi in sorted(by):
        for e in rng.sample(by[bi], min(len(by[bi]), per)):
            pool.append(e)
            idmap[str(len(pool))] = bi
    members = {bi: [bi] + [int(k) for k, v in idmap.items() if v == bi] for bi in range(1, len(BASES) + 1)}
    ctx.log("encodings in the pool:", len(pool), "of", len(encs), "emitted")
    # call histories over MEASURES come from Protocol.tla; every measure of a transform batch is then carried by a random encoding
    hs = protocol.generate(ctx, len(BASES), 3, 4, ["transform", "knob", "fit"], nknobs=3, simulate="num=%d" % ctx.pick(400, 4000),
                           seed=ctx.seed + 4, what="Protocol transform/knob histories over measures (simulate)")
    hs = [[c for c in h if c["op"] != "fit"] for h in hs]
    hs = [h for h in hs if sum(1 for c in h if c["op"] == "transform") >= 2]
    from .. import adapters_lot
    jobs = []
    fitb = list(range(1, len(BASES) + 1))
    for name, cls in sorted(adapters_lot.MEASURE.items()):
        for ci in range(len(cls.configs)):
            for h in rng.sample(hs, min(len(hs), ctx.pick(6, 40))):
                hist = [call("fit", fitb)]
                for c in h:
                    if c["op"] == "transform":
                        hist.append(call("transform", [rng.choice(members[m]) for m in c["b"]]))
                    else:
                        hist.append(c)
                # equal distributions in one batch, all encodings of one measure at once
                m = rng.choice(fitb)
                hist.append(call("transform", rng.sample(members[m], min(len(members[m]), 4)) + [m]))
                jobs.append(dict(adapter=name, cfg=ci, cfg_extra={"_encodings": pool}, seed=ctx.seed, history=hist, idmap=idmap))
    # batches longer than the minimal internal chunk (256 rows) with a memory_size that puts 288 rows into one block: equal measures
    # must still get equal embeddings, whatever their position in the batch
    for name in ("Measure[LOT_exact,lil]", "Measure[LOT_exact,spmatrix]"):
        for ci in (0,):
            long1 = [rng.choice(members[m]) for m in [1, 2, 3, 4] * 75]
            long2 = [rng.choice(members[m]) for m in [5, 1, 6] * 86 + [2]]
            hist = [call("fit", fitb), call("transform", [1, 2, 3, 4, 5, 6]), call("knob", [], 4), call("transform", long1),
                    call("knob", [], 2), call("transform", long2[:7]), call("knob", [], 4), call("transform", long2)]
            jobs.append(dict(adapter=name, cfg=ci, cfg_extra={"_encodings": pool}, seed=ctx.seed, history=hist, idmap=idmap))
    # the same measures carried by a sparse matrix, by lists and by generators (same explicit reference measure): the configuration
    # of these adapters IS the input format, and the memo is shared across configurations (Reconf + New)
    new = {"op": "new", "b": [], "knob": 0, "expect_ok": True}
    for name in sorted(adapters_lot.FORMATS):
        for k in range(ctx.pick(2, 8)):
            order = rng.sample([1, 2, 3], 3)
            hist = []
            for pos, ci in enumerate(order):
                if pos:
                    hist += [call("reconf", [], ci), new]
                xs = [rng.choice(members[m]) for m in rng.sample(fitb, 4)]
                hist += [call("fit", fitb), call("transform", xs), call("transform", [rng.choice(members[m]) for m in (1, 2, 3, 4, 5, 6)])]
            jobs.append(dict(adapter=name, cfg=order[0] - 1, cfg_extra={"_encodings": pool}, seed=ctx.seed, history=hist, idmap=idmap))
    ctx.log("C08 histories to replay:", len(jobs))
    jobs.sort(key=lambda j: (j["adapter"], j["cfg"]))

    def extra(j, rec):
        return sorted(set("non-finite embedding" for s in rec["steps"] if s["o"]["rows"] and not s["o"].get("finite", True)))
    protocol.run_jobs(ctx, jobs, "measure_only", min_chunk=max(4, len(jobs) // 14), extra_check=extra,
                      ignore=("arguments_modified", "constructor_parameter_objects_modified", "transform_changed_the_model",
                              "same_seed_same_model", "temporary_files_left_behind", "fit_returns_self"))
    ctx.exhaustive = False
    ctx.assumptions += ["support points get seeded generic vectors (unique optimal plan almost surely); split points share a vector, "
                        "which leaves the barycentric image invariant", "row classes at rtol 1e-6 / atol 1e-7 (1e-5/1e-6 for Sinkhorn)"]
    return ctx.finish(
        level="model_checking",
        rule="Measure.tla generates re-encodings (scale, zero-weight padding, reordering, splitting, merging) of 6 base measures and "
             "TLC proves each denotes the same measure; Protocol.tla histories over measures are instantiated with random encodings "
             "(lists, generators, sparse matrices with explicit zeros and duplicated columns) and decided by Trace_Protocol.tla with "
             "the memo keyed by MEASURE: one case per (vectorizer, configuration, history)")


def replay(ctx, rep):
    res = pool_map("proto", "run_history", [rep["detail"]["job"]])
    print(json.dumps(res[0])[:4000])
    return 0
