"""C18 - distances: finite, symmetric, zero on proportional inputs; sparse = dense."""
import json
import os
import random
import shutil
import tempfile

from .. import tlc
from ..common import MachineryError, pool_map

E = tlc.TLAExpr


def judge(ctx, items, res, part, key):
    for it, r in zip(items, res):
        ctx.evaluations += 1
        ctx.traces += 1
        ctx.count(part)
        ctx.nontriv({"p": part, "k": key(it)})
        ident = dict(part=part, **key(it))
        if r is None or "crash" in r or "exc" in r:
            ctx.violation(dict(ident, kind="crash-or-exception", exc=(r or {}).get("exc")), {"item": it, "result": r})
        elif not r["ok"]:
            ctx.violation(dict(ident, kind="mismatch", what=sorted(set(str(f.get("what")) + ":" + str(f.get("f", "")) for f in r["fails"]))),
                          {"item": it, "result": r})


def part_sparse(ctx):
    rng = random.Random(ctx.seed)
    r = tlc.run_tlc("SparseOps", dict(Dim=ctx.pick(3, 4), Vals=E("{-1,0,1,2}"), EMIT=True),
                    invariants=["SumOK", "DiffOK", "MulOK", "FitsBuffer", "EmitInv"], workers=1, timeout=3000, heap="6g")
    ctx.add_tlc(r, "SparseOps exhaustive")
    ctx.tlc_violation(r, "SparseOps")
    items = r.prints
    if len(items) < 1000:
        raise MachineryError("SparseOps emitted too few instances")
    if len(items) > ctx.pick(16000, 200000):
        ctx.exhaustive = False
        items = rng.sample(items, ctx.pick(16000, 200000))
    ctx.log("sparse helper instances", len(items))
    res = pool_map("dist", "run_sparse", items, min_chunk=1000)
    judge(ctx, items, res, "sparse_helpers", lambda it: {"a": it["a"], "b": it["b"]})
    ctx.sample({"a": items[5]["a"], "b": items[5]["b"], "expected_sum": items[5]["sum"]})


def part_dist(ctx):
    rng = random.Random(ctx.seed + 1)
    r = tlc.run_tlc("Dist", dict(Dim=3, Entries=E("{0,1,4,9}"), EMIT=False, Triples=True), invariants=["Axioms", "Triangle"],
                    workers=8, timeout=3000)
    ctx.add_tlc(r, "Dist axioms on all triples (dim 3)")
    ctx.tlc_violation(r, "Dist axioms")
    r = tlc.run_tlc("Dist", dict(Dim=ctx.pick(3, 4), Entries=E(ctx.pick("{0,1,4,9}", "{0,1,4,9,16}")), EMIT=True, Triples=False),
                    invariants=["Axioms", "EmitInv"], workers=1, timeout=3000, heap="6g")
    ctx.add_tlc(r, "Dist pairs with exact values")
    ctx.tlc_violation(r, "Dist pairs")
    items = r.prints
    if len(items) < 1000:
        raise MachineryError("Dist emitted too few instances")
    if len(items) > ctx.pick(4000, 60000):
        ctx.exhaustive = False
        props = [i for i in items if i["prop"]]
        items = props + rng.sample(items, ctx.pick(4000, 60000))
    for it in items:
        it["scales"] = [[1, 1], [rng.choice([2, 3, 5, 7, 1 / 3]), 1], [10.0 ** rng.randint(-3, 6), 10.0 ** rng.randint(-3, 6)]]
    ctx.log("distance instances", len(items))
    res = pool_map("dist", "run_dist", items, min_chunk=500)
    judge(ctx, items, res, "distances", lambda it: {"x": it["x"], "y": it["y"]})
    ctx.sample({"x": items[3]["x"], "y": items[3]["y"], "tv": items[3]["tv"], "k1": items[3]["k1"], "hellinger_S_N": [items[3]["hs"], items[3]["hn"]]})


def part_axioms(ctx):
    jobs = [dict(seed=ctx.seed * 100 + k, n=ctx.pick(60, 500)) for k in range(ctx.pick(8, 40))]
    res = pool_map("dist", "record", jobs, min_chunk=1)
    events = []
    for j, r in zip(jobs, res):
        if r is None or "crash" in r or "exc" in r:
            ctx.violation({"part": "axioms", "kind": "crash-or-exception", "seed": j["seed"]}, {"job": j, "result": r})
            continue
        for e in r["events"]:
            e["seed"] = j["seed"]
        events += r["events"]
    tmp = tempfile.mkdtemp(prefix="verif_tr_")
    try:
        path = os.path.join(tmp, "ev.json")
        with open(path, "w") as f:
            json.dump(events, f)
        r = tlc.run_tlc("Trace_Dist", {}, spec="Spec", invariants=["AxiomsHold"], postcondition="Accepted", workers=1,
                        env={"TRACE_FILE": path}, timeout=3000, heap="6g")
    finally:
        shutil.rmtree(tmp, ignore_errors=True)
    ctx.add_tlc(r, "Trace_Dist on %d recorded events" % len(events))
    ctx.evaluations += len(events)
    if r.violated or r.post_failed:
        import re
        m = re.search(r'<<"BADEVENT", (\d+), (.*)>>', r.raw)
        bad = events[int(m.group(1)) - 1] if m else None
        ctx.violation({"part": "axioms", "kind": "axiom-violated", "event": bad}, {"tail": r.raw[-3000:]})
    else:
        ctx.traces += len(events)
        ctx.count("axiom_events_accepted", len(events))
        for e in events[:2000]:
            ctx.nontriv({"e": e})
    if events:
        ctx.sample({"recorded_event": events[0]})


PARTS = [("sparse", part_sparse), ("dist", part_dist), ("axioms", part_axioms)]


def run(ctx):
    for name, fn in PARTS:
        if ctx.only and name not in ctx.only:
            continue
        ctx.log("part", name)
        fn(ctx)
    ctx.assumptions += ["exact values only for TV, Kantorovich p=1 and Hellinger on perfect-square entries; Jensen-Shannon and "
                        "symmetric KL need ln and are checked against the stated axioms only",
                        "sparse = dense tolerance 2e-3 absolute for hellinger (float32 sqrt of a difference), 1e-4 otherwise"]
    return ctx.finish(
        level="model_checking",
        rule="S->C: every pair of sparse vectors (dim<=3/4, values -1..2) through the six helpers; every pair of square-entry vectors "
             "through the five distances (dense, swapped, rescaled, sparse); C->S: axiom events recorded on random vectors and "
             "decided by Trace_Dist.tla")


def replay(ctx, rep):
    it = rep["detail"].get("item")
    if not it:
        print(json.dumps(rep)[:2000])
        return 1
    fn = "run_sparse" if rep["ident"]["part"] == "sparse_helpers" else "run_dist"
    res = pool_map("dist", fn, [it])
    print(json.dumps(res[0])[:3000])
    return 0 if res[0].get("ok") else 1
