"""C02 - fit_transform(X) equals fit(X).transform(X), and fit returns the estimator."""
import json
import random

from .. import adapters, protocol
from ..common import pool_map

IGNORE = ("arguments_modified", "constructor_parameter_objects_modified", "temporary_files_left_behind",
          "transform_changed_the_model", "same_seed_same_model")


def all_adapters():
    d = dict(adapters.ALL)
    from .. import adapters_lot
    d.update({k: v for k, v in adapters_lot.ALL.items() if not k.startswith("Measure[") and "far batch mate" not in k and "special batches" not in k and "all formats" not in k})
    return d


def call(op, b):
    return {"op": op, "b": b, "knob": 0, "expect_ok": True}


def run(ctx):
    rng = random.Random(ctx.seed)
    # TLC generates the call histories over {fit, fit_transform, transform}; the ones in which the same batch is both
    # fit_transform-ed and fit + transform-ed are the ones that speak about C02
    hs = protocol.generate(ctx, 4, 3, 3, ["fit", "fit_transform", "transform"], simulate="num=%d" % ctx.pick(2000, 20000),
                           seed=ctx.seed, what="Protocol fit/fit_transform/transform histories (simulate)")

    def relevant(h):
        fts = [c["b"] for c in h if c["op"] == "fit_transform"]
        cur, seen = None, []
        for c in h:
            if c["op"] in ("fit", "fit_transform"):
                cur = c["b"]
            elif c["op"] == "transform" and cur is not None:
                seen.append((cur, c["b"]))
        return any(fb == b and (fb in fts) for fb, b in seen)
    hs = [h for h in hs if relevant(h)]
    base = [[call("fit_transform", [1, 2, 3]), call("transform", [1, 2, 3])],
            [call("fit", [1, 2, 3]), call("transform", [1, 2, 3]), call("fit_transform", [1, 2, 3])],
            [call("fit_transform", [2, 4, 1, 3]), call("fit", [2, 4, 1, 3]), call("transform", [2, 4, 1, 3])],
            [call("fit", [3, 3, 1]), call("transform", [3, 3, 1]), call("fit_transform", [3, 3, 1])],
            # a batch that does not fill a whole number of internal blocks (e.g. 4 rows per block with memory_size="1k")
            [call("fit_transform", [1, 2, 3, 4, 2, 1, 3]), call("transform", [1, 2, 3, 4, 2, 1, 3])]]
    jobs = []
    per = ctx.pick(2, 7)
    import os
    only = os.environ.get("VERIF_ADAPTERS")
    for name, cls in sorted(all_adapters().items()):
        if only and not any(o in name for o in only.split(",")):
            continue
        for ci in range(len(cls.configs)):
            whole = cls.kind == adapters.WHOLE
            pick = base + rng.sample(hs, min(len(hs), per))
            for h in pick:
                if whole:
                    h = [dict(c, b=c["b"][:1]) for c in h]
                jobs.append(dict(adapter=name, cfg=ci, seed=ctx.seed, history=h))
    # de-duplicate (whole-input adapters collapse many histories)
    seen, uniq = set(), []
    for j in jobs:
        k = json.dumps([j["adapter"], j["cfg"], j["history"]], sort_keys=True)
        if k not in seen:
            seen.add(k)
            uniq.append(j)
    ctx.log("C02 histories to replay:", len(uniq))
    light = [j for j in uniq if not all_adapters()[j["adapter"]].heavy]
    heavy = [j for j in uniq if all_adapters()[j["adapter"]].heavy]
    protocol.run_jobs(ctx, light, "fit_transform_vs_fit_then_transform", ignore=IGNORE, min_chunk=6)
    heavy.sort(key=lambda j: (j["adapter"], j["cfg"]))
    protocol.run_jobs(ctx, heavy, "fit_transform_vs_fit_then_transform_lot", ignore=IGNORE, min_chunk=max(6, len(heavy) // 12))
    ctx.exhaustive = False
    ctx.assumptions += ["estimators with a random_state are constructed with the same integer seed for every fit of a history",
                        "SVD-compressed outputs are compared at rtol 1e-6; requested dimensions (2-3) are below the rank of the "
                        "uncompressed representation, where the claim is equality of the two paths' outputs up to tolerance"]
    return ctx.finish(
        level="model_checking",
        rule="one case per (estimator, configuration, history containing fit_transform(b) and fit(b); transform(b)) generated from "
             "Protocol.tla, replayed and accepted by Trace_Protocol.tla: rows of the same item under models fitted on the same batch "
             "(same configuration and seed) must coincide, fit must return the estimator")


def replay(ctx, rep):
    res = pool_map("proto", "run_history", [rep["detail"]["job"]])
    print(json.dumps(res[0])[:4000])
    return 0
