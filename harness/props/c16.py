"""C16 - LZ compression rows count each string's own parse phrases."""
import itertools
import json
import random
from concurrent.futures import ThreadPoolExecutor

from .. import tlc
from ..common import MachineryError, pool_map


def all_strings(alpha, maxlen):
    out = [""]
    for n in range(1, maxlen + 1):
        out += ["".join(p) for p in itertools.product(alpha, repeat=n)]
    return out


def jobs_for(ctx):
    rng = random.Random(ctx.seed)
    S = all_strings("ab", ctx.pick(5, 6))
    jobs = []
    cfgs = []
    for md in (2, 3, 4, 100):
        cfgs.append(dict(max_dict_size=md, max_columns=None, hash="identity"))
    cfgs += [dict(max_dict_size=100, max_columns=None, hash="identity", base={"a": 1, "b": 1}),
             dict(max_dict_size=3, max_columns=None, hash="identity", base={"a": 2, "b": 1}),
             dict(max_dict_size=100, max_columns=None, hash="custom"), dict(max_dict_size=4, max_columns=None, hash="custom"),
             dict(max_dict_size=100, max_columns=2, hash="murmur", seed=1), dict(max_dict_size=100, max_columns=3, hash="murmur", seed=2),
             dict(max_dict_size=100, max_columns=8, hash="murmur", seed=3), dict(max_dict_size=3, max_columns=5, hash="murmur", seed=4),
             dict(max_dict_size=100, max_columns=1 << 16, hash="murmur", seed=5),
             dict(max_dict_size=100, max_columns=7, hash="murmur", seed=6, base={"a": 1, "b": 1}),
             # base phrases that share a hashed column: their initial counts add up
             dict(max_dict_size=100, max_columns=2, hash="murmur", seed=7, base={"a": 1, "b": 2, "ab": 3, "ba": 1}),
             dict(max_dict_size=100, max_columns=3, hash="murmur", seed=8, base={"a": 2, "b": 1, "aa": 1, "bb": 4, "ab": 1}),
             dict(max_dict_size=6, max_columns=3, hash="murmur", seed=9, base={"a": 1, "b": 1, "aa": 2, "bb": 1}),
             dict(max_dict_size=100, max_columns=None, hash="custom", base={"a": 1, "b": 2, "ab": 1, "bb": 1}),
             # the base dictionary alone fills (or exceeds) the cap: nothing more may be learned
             dict(max_dict_size=2, max_columns=None, hash="identity", base={"a": 1, "b": 2}),
             dict(max_dict_size=2, max_columns=None, hash="identity", base={"a": 1, "b": 1, "ab": 1}),
             dict(max_dict_size=3, max_columns=7, hash="murmur", seed=10, base={"a": 1, "b": 1, "ba": 2})]
    n = ctx.n(ctx.pick(700, 3000))
    extra = ["abcabc", "aaaaaaaa", "abababab", "a", "", "é中é中", "xyzzy", "abcabcabcabc"]
    while len(jobs) < n:
        cfg = rng.choice(cfgs)
        k = rng.randint(1, 2)
        train = [rng.choice(S) for _ in range(k)]
        if rng.random() < 0.15:
            train[0] = rng.choice(extra)
        test = [rng.choice(S + extra) for _ in range(rng.randint(1, 2))]
        jobs.append(dict(train=train, test=test, cfg=cfg, reuse=len(jobs) % 3 == 1))
    return jobs


def body(ctx):
    jobs = jobs_for(ctx)
    res = pool_map("mixed", "record_lz", jobs, min_chunk=40, timeout=3000)
    insts, owners = [], []
    for j, r in zip(jobs, res):
        ctx.evaluations += 1
        ident = {"train": j["train"], "test": j["test"], "cfg": j["cfg"]}
        if r is None or "crash" in r or "exc" in r or not r.get("ok"):
            ctx.violation(dict(ident, kind="raised", exc=(r or {}).get("exc", "")[:120]), {"job": j, "result": r})
            continue
        cfg = j["cfg"]
        insts.append(dict(train=[[ord(c) for c in s] for s in j["train"]], test=[[ord(c) for c in s] for s in j["test"]],
                          maxDict=cfg["max_dict_size"], base=r["base"], ht=r["ht"], ncols=cfg["max_columns"] or 0))
        owners.append((j, r, ident))
    ctx.log("LZ recorded fits:", len(insts), "of", len(jobs))
    shards = 12
    groups = [list(range(i, len(insts), shards)) for i in range(shards)]

    def one(g):
        return g, tlc.run_tlc("LZ", dict(Insts=[insts[i] for i in g], EMIT=True),
                              invariants=["RowTotal", "WithinBudget", "OwnStringOnly", "EmitInv"], workers=1, timeout=3000, heap="4g")
    with ThreadPoolExecutor(max_workers=shards) as ex:
        rs = list(ex.map(one, [g for g in groups if g]))
    exp = {}
    for g, r in rs:
        ctx.add_tlc(r, "LZ.tla parses of recorded instances")
        ctx.tlc_violation(r, "LZ invariants")
        for p in r.prints:
            exp[g[p["ii"] - 1]] = p
    if len(exp) != len(insts):
        raise MachineryError("LZ.tla evaluated %d of %d instances" % (len(exp), len(insts)))
    for i, (j, r, ident) in enumerate(owners):
        e = exp[i]
        what = []
        if r["cols"] != e["cols"]:
            what.append("fitted columns")
        if r["ft"] != e["train"]:
            what.append("fit_transform rows")
        if r["t_train"] != e["train"]:
            what.append("transform(training strings) rows")
        if r["t_test"] != e["test"]:
            what.append("transform(new strings) rows")
        ncol = len(e["cols"])
        if r["shapes"] != [[len(j["train"]), ncol], [len(j["train"]), ncol], [len(j["test"]), ncol]]:
            what.append("shapes")
        if not r["same_columns_fit_vs_fit_transform"]:
            what.append("fit and fit_transform learn different columns")
        if not r.get("fit_returns_self", True):
            what.append("fit does not return self")
        if what:
            ctx.violation(dict(ident, kind="mismatch", what=what), {"job": j, "recorded": {k: v for k, v in r.items() if k != "ht"}, "expected": e})
        else:
            ctx.traces += 1
            ctx.count("recorded_fits_accepted")
            if any(e["caphit"]) or j["cfg"]["hash"] != "identity" or any(len(x) == 0 for x in e["test"]):
                ctx.nontriv(ident)
    j, r, ident = owners[0]
    ctx.sample({"train": j["train"], "test": j["test"], "cfg": j["cfg"], "expected_columns": exp[0]["cols"][:8], "expected_train_rows": exp[0]["train"]})


def run(ctx):
    body(ctx)
    ctx.exhaustive = False
    ctx.assumptions += ["the hash value of every phrase is logged from the fitted hash function and given to TLC, so collisions "
                        "are part of the model; the murmur hash itself is not specified"]
    return ctx.finish(
        level="model_checking",
        rule="one case per recorded (training strings, new strings, configuration) fit whose parse TLC recomputed from LZ.tla with "
             "the logged hash table and compared with fit_transform, transform(train), transform(new) rows, columns and shapes; "
             "non-trivial = dictionary cap hit, hashing on, or an unseen phrase in the new strings")


def replay(ctx, rep):
    res = pool_map("mixed", "record_lz", [rep["detail"]["job"]])
    print(json.dumps({k: v for k, v in res[0].items() if k != "ht"})[:3000])
    return 0
