"""C04 - co-occurrence results do not depend on threads, buffer sizes or data volume.

Parts (DESIGN.md section 5, C04):
  a  CooBuffer.tla model-checked (NoOOB, Conservation, RunsSorted, Layout, Room, FinalOK)
  b  S->C: every distinct reachable state of the bounded model is reproduced by the real coo_append
  c  C->S: executions of the real coo_append on seeded random key streams validated by Trace_CooBuffer
  d  Chunking.tla exhaustive + S->C into _generate_chunk_boundaries
  e  pipeline sweeps (n_threads x coo_initial_memory x hook LIMIT x fit_transform/transform) vs Cooc.tla
  f  production threshold (no hook): bulk appends, conservation; periodic corpora vs closed form
"""
import json
import os
import random
import tempfile

from .. import tlc
from ..common import MachineryError, pool_map

INVS = ["NoOOB", "Conservation", "FinalOK", "RunsSorted", "Layout", "Room"]


def part_ab(ctx):
    cfgs = ctx.pick([(2, 20, 3, 7), (3, 20, 3, 7), (4, 20, 3, 7)],
                    [(2, 20, 3, 9), (3, 20, 3, 9), (4, 20, 3, 9), (5, 21, 3, 9), (3, 23, 4, 8)])
    def one(limit, cap0, nkeys, napp):
        what = "CooBuffer exhaustive LIMIT=%d CAP0=%d keys=%d appends<=%d" % (limit, cap0, nkeys, napp)
        r = tlc.run_tlc("CooBuffer", dict(LIMIT=limit, CAP0=cap0, Keys=tlc.TLAExpr("0..%d" % (nkeys - 1)),
                                          Vals=tlc.TLAExpr("{1,2}"), MaxAppends=napp, FIXED=True, EMIT=True),
                        invariants=INVS + ["EmitInv"], view="view", workers=1, timeout=1800, heap="6g")
        ctx.add_tlc(r, what)
        if ctx.tlc_violation(r, what):
            return
        items = [dict(limit=limit, cap0=cap0, h=p["h"], st=p["st"], fin=p["fin"]) for p in r.prints]
        if len(items) < 100:
            raise MachineryError("too few emitted states in " + what)
        ctx.log(what, "->", len(items), "states to reproduce in the real accumulator")
        res = pool_map("coo", "replay", items, env={"VECTORIZERS_VERIF": "1", "VECTORIZERS_VERIF_COO_LIMIT": limit},
                       nproc=4, min_chunk=500)
        _judge_replay(ctx, items, res, "b")
    ctx.par([lambda c=c: one(*c) for c in cfgs], workers=4)


def _judge_replay(ctx, items, res, part):
    for it, r in zip(items, res):
        ctx.evaluations += 1
        ctx.traces += 1
        ctx.count(part + "_replayed")
        if it["st"]["nSum"] > 0:
            ctx.nontriv({"h": it["h"], "l": it["limit"], "c": it["cap0"]})
        if r is None or "crash" in r or "exc" in r:
            ctx.violation({"part": part, "kind": "crash-or-exception", "limit": it["limit"], "cap0": it["cap0"],
                           "h": it["h"] if len(it["h"]) < 40 else len(it["h"])}, {"item": it, "result": r})
        elif not r["ok"]:
            ctx.violation({"part": part, "kind": "state-mismatch", "limit": it["limit"], "cap0": it["cap0"],
                           "fields": r["bad"], "h": it["h"] if len(it["h"]) < 40 else len(it["h"])},
                          {"item": it, "result": r})
    if items:
        ctx.sample({"part": part, "appends": items[len(items) // 2]["h"], "expected_state": items[len(items) // 2]["st"]})


def part_b_sim(ctx):
    """simulation: more keys, so that ind reaches cap-1, merge_all and growth happen"""
    rng = random.Random(ctx.seed + 11)
    runs = ctx.pick([(3, 20, 12, 70, 40), (4, 22, 16, 90, 40), (8, 24, 24, 120, 30)],
                    [(3, 20, 12, 70, 400), (4, 22, 16, 90, 400), (8, 24, 24, 120, 300), (2, 20, 10, 60, 400),
                     (16, 40, 40, 200, 100)])
    seeds = {r: (rng.randrange(1 << 30), rng.randrange(1 << 30)) for r in runs}
    stat = {"grow": 0, "mall": 0}

    def sim(limit, cap0, nkeys, depth, num):
        what = "CooBuffer simulate LIMIT=%d CAP0=%d keys=%d depth=%d num=%d" % (limit, cap0, nkeys, depth, num)
        r = tlc.run_tlc("CooBuffer", dict(LIMIT=limit, CAP0=cap0, Keys=tlc.TLAExpr("0..%d" % (nkeys - 1)),
                                          Vals=tlc.TLAExpr("{1,2,3}"), MaxAppends=depth, FIXED=True, EMIT=False),
                        invariants=INVS, workers=1, simulate="num=%d" % num, depth=depth + 1,
                        seed=seeds[(limit, cap0, nkeys, depth, num)][0], timeout=1800, heap="4g", tag="MC_CooSim")
        ctx.add_tlc(r, what)
        ctx.tlc_violation(r, what)
        # emission of full behaviours in simulation mode: print half-way and at the last step
        what = "CooBuffer simulate+emit LIMIT=%d CAP0=%d keys=%d depth=%d" % (limit, cap0, nkeys, depth)
        r = tlc.run_tlc("CooBuffer", dict(LIMIT=limit, CAP0=cap0, Keys=tlc.TLAExpr("0..%d" % (nkeys - 1)),
                                          Vals=tlc.TLAExpr("{1,2,3}"), MaxAppends=depth, FIXED=True, EMIT=True),
                        invariants=["EmitLast"], workers=1, simulate="num=%d" % num, depth=depth + 1,
                        seed=seeds[(limit, cap0, nkeys, depth, num)][1], timeout=1800,
                        extra_defs="EmitLast == IF nApp = MaxAppends \\/ nApp = MaxAppends \\div 2 THEN EmitInv ELSE TRUE")
        ctx.add_tlc(r, what)
        ctx.tlc_violation(r, what)
        items = [dict(limit=limit, cap0=cap0, h=p["h"], st=p["st"], fin=p["fin"]) for p in r.prints]
        stat["grow"] += sum(1 for i in items if i["st"]["nGrow"] > 0)
        stat["mall"] += sum(1 for i in items if i["st"]["nMergeAll"] > 0)
        res = pool_map("coo", "replay", items, env={"VECTORIZERS_VERIF": "1", "VECTORIZERS_VERIF_COO_LIMIT": limit},
                       nproc=3, min_chunk=50)
        _judge_replay(ctx, items, res, "b_sim")
    ctx.par([lambda c=c: sim(*c) for c in runs], workers=5)
    seen_grow, seen_mall = stat["grow"], stat["mall"]
    ctx.parts["b_sim_states_with_growth"] = seen_grow
    ctx.parts["b_sim_states_with_merge_all"] = seen_mall
    if seen_grow == 0 or seen_mall == 0:
        raise MachineryError("vacuous simulation: growth=%d merge_all=%d never reached" % (seen_grow, seen_mall))


def validate_traces(ctx, limit, cap0, maxkey, traces, what):
    """Run Trace_CooBuffer on a batch; returns (accepted ids, mismatches dict)."""
    tmp = tempfile.mkdtemp(prefix="verif_tr_")
    path = os.path.join(tmp, "batch.json")
    try:
        with open(path, "w") as f:
            json.dump({"limit": limit, "cap0": cap0, "maxkey": maxkey, "fixed": True, "traces": traces}, f)
        r = tlc.run_tlc("Trace_CooBuffer", {}, spec="TSpec",
                        invariants=["Mark", "Conserved", "Sorted", "LayoutOK", "RoomOK", "FinalOK"],
                        postcondition="Accepted", workers=1, env={"TRACE_FILE": path}, timeout=3000, heap="6g")
    finally:
        import shutil
        shutil.rmtree(tmp, ignore_errors=True)
    ctx.add_tlc(r, what)
    mism = {}
    rejected = set()
    import re
    for p in r.prints:
        if "mismatch_tid" in p:
            mism[int(p["mismatch_tid"])] = (int(p["step"]), ", ".join(sorted(p["bad"])))
    for line in r.raw.splitlines():
        m = re.match(r'<<"REJECTED", \{(.*)\}>>', line.strip())
        if m:
            rejected = set(int(x) for x in m.group(1).split(",") if x.strip())
    if r.violated:
        ctx.violation({"part": "c", "kind": "trace-invariant", "violated": sorted(set(r.violated)), "what": what},
                      {"tail": r.raw[-5000:]})
    if r.post_failed and not rejected and not mism:
        raise MachineryError("trace validation failed without diagnosis: " + r.raw[-2000:])
    return rejected, mism


def part_c(ctx):
    rng = random.Random(ctx.seed + 23)
    groups = ctx.pick([(3, 20, 12, 25, 80), (4, 31, 20, 25, 120), (16, 64, 40, 12, 300), (64, 200, 40, 6, 700)],
                      [(2, 20, 10, 150, 80), (3, 20, 12, 150, 100), (4, 31, 20, 150, 150), (7, 50, 30, 100, 250),
                       (16, 64, 40, 80, 400), (64, 200, 40, 40, 1200), (64, 97, 60, 40, 1500)])
    seeds = {g: rng.randrange(1 << 30) for g in groups}

    def grp(limit, cap0, nkeys, ntr, length):
        rng = random.Random(seeds[(limit, cap0, nkeys, ntr, length)])
        items = []
        for t in range(ntr):
            style = rng.choice(["uniform", "skew", "runs", "few"])
            kv = []
            for i in range(rng.randint(length // 2, length)):
                if style == "uniform":
                    k = rng.randrange(nkeys)
                elif style == "skew":
                    k = min(nkeys - 1, int(rng.expovariate(0.4)))
                elif style == "runs":
                    k = (i // rng.randint(1, 5)) % nkeys
                else:
                    k = rng.randrange(min(3, nkeys))
                kv.append([k, 1])
            items.append(dict(limit=limit, cap0=cap0, kv=kv))
        res = pool_map("coo", "record", items, env={"VECTORIZERS_VERIF": "1", "VECTORIZERS_VERIF_COO_LIMIT": limit},
                       nproc=2, min_chunk=10)
        traces, owners = [], []
        for it, r in zip(items, res):
            ctx.evaluations += 1
            if r is None or "crash" in r or "exc" in r:
                ctx.violation({"part": "c", "kind": "crash-or-exception", "limit": limit, "cap0": cap0},
                              {"item": it, "result": r})
                continue
            if not r["rowcol_ok"]:
                ctx.violation({"part": "c", "kind": "row/col inconsistent with key", "limit": limit, "cap0": cap0},
                              {"item": it})
            traces.append({"steps": [{k: s[k] for k in ("k", "v", "ind", "depth", "cap", "mn", "key", "val")}
                                     for s in r["steps"]]})
            owners.append(it)
        what = "Trace_CooBuffer LIMIT=%d CAP0=%d traces=%d len<=%d" % (limit, cap0, len(traces), length)
        rejected, mism = validate_traces(ctx, limit, cap0, nkeys - 1, traces, what)
        for i, it in enumerate(owners, 1):
            if i in rejected or i in mism:
                step, fields = mism.get(i, (None, "stuck"))
                ctx.violation({"part": "c", "kind": "trace-rejected", "limit": limit, "cap0": cap0,
                               "fields": fields, "kv_prefix": it["kv"][: (step or 0)][:60]},
                              {"item": it, "step": step, "fields": fields})
            else:
                ctx.traces += 1
                ctx.count("c_traces_accepted")
                ctx.nontriv({"kv": it["kv"], "l": limit, "c": cap0})
        ctx.log(what, "rejected", len(rejected), "mismatch", len(mism))
        if owners:
            ctx.sample({"part": "c", "limit": limit, "cap0": cap0, "appends": owners[0]["kv"][:30]})
    ctx.par([lambda g=g: grp(*g) for g in groups], workers=7)


def part_f_bulk(ctx):
    """production threshold, no hook"""
    items = ctx.pick(
        [dict(cap0=70000, n=400000, nkeys=3000, seed=ctx.seed + 1, pattern="random"),
         dict(cap0=66000, n=300000, nkeys=70000, seed=ctx.seed + 2, pattern="random"),
         dict(cap0=70000, n=300000, nkeys=200, seed=ctx.seed + 3, pattern="periodic")],
        [dict(cap0=c, n=n, nkeys=k, seed=ctx.seed + i, pattern=p)
         for i, (c, n, k, p) in enumerate([(70000, 2000000, 3000, "random"), (66000, 1500000, 60000, "random"),
                                           (65556, 1000000, 100000, "random"), (200000, 3000000, 150000, "random"),
                                           (70000, 2000000, 200, "periodic"), (100000, 2000000, 5000, "blocks"),
                                           (65537, 700000, 65000, "random"), (131072, 2500000, 90000, "periodic")])])
    res = pool_map("coo", "bulk", items, env={"VECTORIZERS_VERIF": "0"})
    for it, r in zip(items, res):
        ctx.evaluations += 1
        ctx.count("f_bulk_runs")
        if r is None or "crash" in r or "exc" in r or not r.get("ok"):
            ctx.violation({"part": "f", "kind": "bulk-conservation", "item": it}, {"item": it, "result": r})
        else:
            if r["limit"] != 65536:
                raise MachineryError("bulk run did not use the production threshold")
            ctx.nontriv(it)
            ctx.sample({"part": "f", "run": it, "result": r}, limit=6)


PARTS = [("ab", part_ab), ("b_sim", part_b_sim), ("c", part_c), ("f_bulk", part_f_bulk)]


def run(ctx):
    from . import c04_pipeline
    parts = PARTS + c04_pipeline.PARTS
    for name, fn in parts:
        if ctx.only and name not in ctx.only:
            continue
        ctx.log("part", name)
        fn(ctx)
    ctx.assumptions += [
        "TLC explores the accumulator for small LIMIT/CAP0/keys; the hook VECTORIZERS_VERIF_COO_LIMIT makes the real "
        "code run with the same LIMIT; runs at the production threshold (part f) are checked by conservation only",
        "thread interleavings of dask/numba are sampled (pool sizes), not enumerated; chunks share no mutable state",
    ]
    return ctx.finish(
        level="model_checking",
        rule="S->C: one case per distinct reachable state of CooBuffer.tla (history replayed through the real coo_append, "
             "all arrays compared); C->S: one case per recorded real execution accepted step-by-step by Trace_CooBuffer; "
             "pipeline: one case per (corpus, setting) compared with Cooc.tla; non-trivial = at least one sort/merge "
             "happened (nSum>0) or the setting differs from the default")


def replay(ctx, rep):
    d = rep["detail"]
    if "item" in d and "h" in d["item"]:
        it = d["item"]
        res = pool_map("coo", "replay", [it], env={"VECTORIZERS_VERIF": "1", "VECTORIZERS_VERIF_COO_LIMIT": it["limit"]})
        print(json.dumps(res[0])[:2000])
        return 0 if res[0].get("ok") else 1
    print(json.dumps(rep)[:3000])
    return 0
