"""C14 - masking keeps positions; nullifying the mask removes its contribution."""
import json
import random

from .. import cooc_cfg, cooc_gen, tlc
from ..common import pool_map
from . import c06

E = tlc.TLAExpr


def prunes(V):
    out = []
    for ex in ([0], [V - 1], [0, 1] if V > 2 else [1]):
        for mask in (False, True):
            out.append({"excluded": ex, "mask": mask})
    return out


def tla_prunes(ps):
    return [{"excluded": E("{" + ", ".join(map(str, p["excluded"])) + "}"), "mask": p["mask"]} for p in ps]


def cfgs_for(rng, n):
    out = []
    for kernel in ("flat", "harmonic", "geometric"):
        for orient in ("before", "after", "directional"):
            for r in (1, 2, 3):
                out.append(cooc_cfg.cfg(kernel, rng.random() < 0.5, [cooc_cfg.win(orient, r)], nullify=rng.random() < 0.6))
    extra = [c for c in cooc_cfg.wide_cfgs(3, rng.randrange(1 << 20), 40) if not any(w["table"] for w in c["wins"])]
    for c in extra:
        c["nullify"] = rng.random() < 0.6
    # the list is cut to n: mix the kinds first so that every kernel / orientation / multi-window kind survives the cut
    rng.shuffle(out)
    mixed = []
    while out or extra:
        if out:
            mixed.append(out.pop())
        if extra and len(mixed) % 3 == 2:
            mixed.append(extra.pop())
        elif not out and extra:
            mixed.append(extra.pop())
    return mixed[:n]


def judge(ctx, items, res, part):
    for it, r in zip(items, res):
        ctx.evaluations += 1
        ctx.traces += 1
        ctx.count(part)
        if it["prune"]["mask"] or it["cfg"]["nullify"]:
            ctx.nontriv({"c": it["corpus"], "ci": it["ci"], "p": it["prune"], "f": part})
        ident = {"part": part, "corpus": it["corpus"], "prune": it["prune"], "cfg": cooc_cfg.describe(it["cfg"])}
        if r is None or "crash" in r:
            ctx.violation(dict(ident, kind="crash"), {"item": it, "result": r})
        elif "exc" in r:
            ctx.violation(dict(ident, kind="exception", exc=r["exc"]), {"item": it, "result": r})
        elif not r["ok"]:
            ctx.violation(dict(ident, kind="mismatch", what=sorted(set(k for f in r["fails"] for k in f if k not in ("mode", "bad")) or {"cells"})),
                          {"item": it, "result": r})


def part_cooc(ctx):
    rng = random.Random(ctx.seed)
    V = 3
    ps = prunes(V)
    for fam, timed in (("token", False), ("timed", True)):
        cfgs = cfgs_for(rng, ctx.pick(12 if timed else 18, 60))
        if timed:
            cfgs = [c for c in cfgs if c["kernel"] != "harmonic"]
        else:
            # variable window radii: the radius of the nullified mask must be 0, whatever the frequencies
            var = cooc_cfg.with_variable(cfgs_for(rng, 27), rng)
            for c in var:
                c["nullify"] = rng.random() < 0.75
            cfgs = cfgs + rng.sample(var, ctx.pick(8, 27))
        items = cooc_gen.emit(ctx, V, 3 if timed else ctx.pick(4, 5), 1, cfgs, "Cooc with pruning/masking (%s)" % fam,
                              invariants=cooc_gen.INVS + ["VariableRadiiWellFormed"],
                              extra_constants=dict(Prunes=tla_prunes(ps), TIMED=timed, Gaps=E("{0,1,2}" if timed else "{1}")))
        for it in items:
            it["prune"] = ps[it["pi"] - 1]
            it["family"] = fam
            it["modes"] = ["ft", "t"]
            if not it["prune"]["mask"]:
                it["cfg"] = dict(it["cfg"], nullify=False)
        # the spec's nullify flag only has a meaning with a mask: drop the (identical) duplicates it creates without one
        if ctx.quick and len(items) > 3000:
            ctx.exhaustive = False
            items = rng.sample(items, 3000)
        ctx.log("C14 %s instances:" % fam, len(items))
        res = pool_map("cooc", "run", items, min_chunk=200)
        judge(ctx, items, res, fam)
        ctx.sample({"family": fam, "corpus": items[0]["corpus"], "prune": items[0]["prune"], "cfg": cooc_cfg.describe(items[0]["cfg"]),
                    "expected_cells": items[0]["cells"][:5]})


def part_ngram(ctx):
    """position-preserving part for NgramVectorizer (mask_string replaces removed tokens in fit and transform)"""
    from .. import count_cfg
    T = count_cfg.tok
    cfgs = [dict(n=n, mode="exact", mask=m, tok=T(excluded=ex)) for n in (2, 3) for m in (True, False) for ex in ((0,), (1,))]
    cfgs += [dict(n=2, mode="exact", mask=True, tok=T(minOcc=2)), dict(n=1, mode="exact", mask=True, tok=T(excluded=(0,)))]
    items = c06.emit(ctx, "Ngram", cfgs, count_cfg.tla_ngram, dict(V=2, MaxLen=ctx.pick(3, 4), MaxDocs=2, TMaxLen=ctx.pick(3, 4), TMaxDocs=1),
                     ["TransformOfTrainIsTrain", "PreLen"], "Ngram with masking")
    rng = random.Random(ctx.seed + 1)
    if ctx.quick and len(items) > 5000:
        items = rng.sample(items, 5000)
    ctx.log("C14 ngram instances:", len(items))
    res = pool_map("counts", "run_ngram", items, min_chunk=300)
    c06.judge(ctx, items, res, "ngram_mask", lambda it: it["cfg"]["mask"])


def part_multi_ngramcooc(ctx):
    """multiset and n-gram co-occurrence vectorizers with masked positions (the generated corpora contain the mask token)"""
    rng = random.Random(ctx.seed + 2)
    V = 2
    pr = {"excluded": [V], "mask": True}
    base = [cooc_cfg.cfg(k, w, [cooc_cfg.win(o, r)], nullify=nl) for k in ("flat", "geometric") for w in (False, True)
            for o in ("after", "directional") for r in (1, 2) for nl in (False, True)]
    for fam, module, consts, inv in (
            ("multi", "CoocMulti", dict(MaxSet=2, MaxSets=3, MaxDocs=1, AllowMask=True), ["Refines", "WindowMassOne"]),
            ("ngram", "CoocNgram", dict(N=2, MaxLen=4, MaxDocs=1, AllowMask=True), ["Refines", "WindowMassOne"])):
        cfgs = rng.sample(base, ctx.pick(8, 24))
        items = cooc_gen.emit(ctx, V, 1, 1, cfgs, "%s with mask tokens" % module, module=module, invariants=inv, extra_constants=consts)
        items = [it for it in items if any(t == V for d in it["corpus"] for x in d for t in (x if isinstance(x, list) else [x]))
                 and any(t != V for d in it["corpus"] for x in d for t in (x if isinstance(x, list) else [x]))]
        keep = ctx.pick(900 if fam == "multi" else 120, 12000 if fam == "multi" else 1200)
        if len(items) > keep:
            ctx.exhaustive = False
            items = rng.sample(items, keep)
        for it in items:
            it.update(prune=pr, family=fam, modes=["ft", "t"], N=2)
        ctx.log("C14 %s instances:" % fam, len(items))
        res = pool_map("cooc", "run", items, min_chunk=8 if fam == "ngram" else 100)
        judge(ctx, items, res, fam + "_mask")


PARTS = [("cooc", part_cooc), ("ngram", part_ngram), ("multi_ngramcooc", part_multi_ngramcooc)]


def run(ctx):
    from . import c14_tree
    for name, fn in PARTS + c14_tree.PARTS:
        if ctx.only and name not in ctx.only:
            continue
        ctx.log("part", name)
        fn(ctx)
    return ctx.finish(
        level="model_checking",
        rule="one case per (corpus, pruning setting removing a token, mask on/off, nullify on/off, window configuration) enumerated by "
             "TLC from Cooc.tla (with its C14 invariants MaskKeepsPositions / NullifyRemovesOnlyTheMask) resp. Ngram.tla / Tree.tla and "
             "replayed through fit_transform and fit().transform; non-trivial = mask or nullify is on")


def replay(ctx, rep):
    it = rep["detail"]["item"]
    fn = ("counts", "run_ngram") if rep["ident"]["part"] == "ngram_mask" else ("cooc", "run")
    res = pool_map(fn[0], fn[1], [it])
    print(json.dumps(res[0])[:3000])
    return 0 if res[0].get("ok") else 1
