"""C01 - transform returns one row per input item in the fitted column space.

The property quantifies over every row-producing vectorizer and every transform input X' (not only the training set).  It is
decided by the same specifications as the per-family properties, here exercised on X' != X:
  counts      Ngram.tla / Skipgram.tla / EdgeList.tla  (X' with unseen tokens / labels, empty and longer items)      [C06 machinery]
  encodings   LZ.tla, Trace_BPE.tla                     (new strings with unseen phrases / characters)                [C16, C09]
  histogram   Histogram.tla                             (values outside the training range)                           [C20]
  cooc        Cooc.tla with the unseen tokens as the 'excluded' set: fit on a vocabulary corpus, transform X'
  protocol    Protocol.tla clauses one_row_per_item / width_fixed_at_fit for the float-valued producers (KDE, Distribution,
              Wasserstein x methods x input formats, Sinkhorn, ApproximateWasserstein) on items never seen in fit
"""
import json
import random

from .. import adapters, cooc_cfg, cooc_gen, protocol, tlc
from ..common import pool_map
from . import c06, c09, c14, c16, c20

E = tlc.TLAExpr


def part_cooc(ctx):
    """token x token matrices of the co-occurrence family on X' containing tokens never seen in fit"""
    rng = random.Random(ctx.seed)
    V = 3
    ps = [{"excluded": [2], "mask": False}, {"excluded": [2], "mask": True}, {"excluded": [0, 2], "mask": False}]
    cfgs = [cooc_cfg.cfg(k, w, [cooc_cfg.win(o, r)]) for k in ("flat", "harmonic") for w in (False, True) for o in ("after", "directional")
            for r in (1, 2)]
    items = cooc_gen.emit_shapes(ctx, V, ctx.pick([(4, 1), (2, 2)], [(5, 1), (3, 2)]), cfgs, "Cooc: transform corpora with unseen tokens",
                          extra_constants=dict(Prunes=c14.tla_prunes(ps)))
    if len(items) > ctx.pick(1500, 40000):
        ctx.exhaustive = False
        items = rng.sample(items, ctx.pick(1500, 40000))
    for it in items:
        pr = ps[it["pi"] - 1]
        # the unseen tokens play the role of the excluded set of the specification: the model is fitted on a corpus that
        # contains exactly the other tokens, then transforms the corpus that also contains the unseen ones
        it["unseen"] = pr["excluded"]
        it["mask"] = pr["mask"]
        it["family"] = "token"
    ctx.log("C01 cooc instances:", len(items))
    res = pool_map("cooc", "run_unseen", items, min_chunk=200)
    for it, r in zip(items, res):
        ctx.evaluations += 1
        ctx.traces += 1
        ctx.count("cooc_unseen")
        if any(t in it["unseen"] for d in it["corpus"] for t in d):
            ctx.nontriv({"c": it["corpus"], "ci": it["ci"], "u": it["unseen"], "m": it["mask"]})
        ident = {"part": "cooc", "corpus": it["corpus"], "unseen": it["unseen"], "mask": it["mask"], "cfg": cooc_cfg.describe(it["cfg"])}
        if r is None or "crash" in r or "exc" in r:
            ctx.violation(dict(ident, kind="crash-or-exception", exc=(r or {}).get("exc")), {"item": it, "result": r})
        elif not r["ok"]:
            ctx.violation(dict(ident, kind="mismatch", what=sorted(r["fails"])), {"item": it, "result": r})
    ctx.sample({"part": "cooc", "transform_corpus": items[0]["corpus"], "unseen_tokens": items[0]["unseen"], "expected_cells": items[0]["cells"][:5]})


def part_protocol(ctx):
    """float-valued row producers: one row per item, fitted width, on items that were not in the fit batch"""
    rng = random.Random(ctx.seed + 9)
    from .c02 import all_adapters, call
    names = ["KDEVectorizer", "DistributionVectorizer", "HistogramVectorizer", "InformationWeightTransformer", "RowDenoisingTransformer",
             "CountFeatureCompressionTransformer"] + [n for n in all_adapters() if all_adapters()[n].heavy]
    hs = [[call("fit", [1, 2, 3]), call("transform", [4, 5]), call("transform", [6, 4, 1]), call("transform", [5]),
           # batches that do not fill a whole number of internal blocks (memory_size="1k": 4 rows per block)
           call("transform", [4, 5, 6, 4, 1, 5, 6]), call("transform", [1, 4, 5, 6, 2])],
          [call("fit", [4, 5, 6]), call("transform", [1]), call("transform", [2, 3, 1, 2])],
          [call("fit_transform", [1, 3, 5]), call("transform", [2, 4, 6, 2])]]
    jobs = []
    for n in names:
        cls = all_adapters()[n]
        for ci in range(len(cls.configs)):
            for h in hs[: ctx.pick(2, 3)]:
                jobs.append(dict(adapter=n, cfg=ci, seed=ctx.seed, history=h))
    light = [j for j in jobs if not all_adapters()[j["adapter"]].heavy]
    heavy = sorted([j for j in jobs if all_adapters()[j["adapter"]].heavy], key=lambda j: (j["adapter"], j["cfg"]))
    ign = ("arguments_modified", "constructor_parameter_objects_modified", "temporary_files_left_behind", "transform_changed_the_model",
           "same_seed_same_model", "fit_returns_self")
    protocol.run_jobs(ctx, light, "row_shape", ignore=ign, min_chunk=6)
    protocol.run_jobs(ctx, heavy, "row_shape_lot", ignore=ign, min_chunk=max(6, len(heavy) // 12))


def part_refit(ctx):
    """a fitted vectorizer is also one that was fitted before on something else: the same OBJECT re-fitted on another batch must give,
    for every later input, the rows / width a fresh estimator fitted on that batch gives (Protocol.tla: memo survives New and re-fits)"""
    from .. import adapters
    from .c02 import all_adapters, call
    new = {"op": "new", "b": [], "knob": 0, "expect_ok": True}
    rw = [[call("fit", [3, 4]), call("transform", [1, 3, 2]), new,
           call("fit", [1, 2]), call("transform", [3, 4]), call("fit", [3, 4]), call("transform", [1, 3, 2]), call("transform", [4, 2])],
          [call("fit_transform", [1, 2]), call("transform", [3, 4]), new,
           call("fit", [2, 3, 4]), call("transform", [3]), call("fit_transform", [1, 2]), call("transform", [3, 4])]]
    wh = [[call("fit", [4]), call("transform", [1]), call("transform", [2]), new,
           call("fit", [3]), call("transform", [3]), call("fit", [4]), call("transform", [1]), call("transform", [2])],
          [call("fit", [2]), call("transform", [4]), new,
           call("fit_transform", [1]), call("transform", [3]), call("fit", [2]), call("transform", [4])]]
    jobs = []
    for n, cls in sorted(all_adapters().items()):
        for ci in range(len(cls.configs)):
            for h in (wh if cls.kind == adapters.WHOLE else rw)[: ctx.pick(1, 2) if cls.heavy else 2]:
                jobs.append(dict(adapter=n, cfg=ci, seed=ctx.seed, history=h, reuse=True))
    # parameter sweeps without clone: the object of configuration j is fitted and used, re-parameterised with set_params to
    # configuration i and re-fitted; it must then answer like a fresh estimator of configuration i (third lifetime)
    def reconf(k):
        return {"op": "reconf", "b": [], "knob": k, "expect_ok": True}
    for n, cls in sorted(all_adapters().items()):
        nc = len(cls.configs)
        if nc < 2:
            continue
        pairs = [(1, 0), (0, 1)] + ([(nc - 1, 0)] if nc > 2 else [])
        if cls.heavy:
            pairs = pairs[: ctx.pick(1, 3)]
        for cj, ci in pairs:
            if cls.kind == adapters.WHOLE:
                h = [call("fit", [4]), call("transform", [1]), reconf(ci + 1), call("fit", [4]), call("transform", [1]), call("transform", [2]),
                     new, call("fit", [4]), call("transform", [1]), call("transform", [2])]
            else:
                h = [call("fit", [1, 2, 3]), call("transform", [1, 4]), reconf(ci + 1), call("fit", [1, 2, 3]), call("transform", [1, 3, 2, 4]),
                     new, call("fit", [1, 2, 3]), call("transform", [1, 3, 2, 4])]
            jobs.append(dict(adapter=n, cfg=cj, seed=ctx.seed, history=h, reuse=True, cfg_in_ids=True))
    light = [j for j in jobs if not all_adapters()[j["adapter"]].heavy]
    heavy = sorted([j for j in jobs if all_adapters()[j["adapter"]].heavy], key=lambda j: (j["adapter"], j["cfg"]))
    ign = ("arguments_modified", "constructor_parameter_objects_modified", "temporary_files_left_behind", "transform_changed_the_model",
           "fit_returns_self", "same_seed_same_model")
    # one pool for both kinds (the slow, re-compiling light adapters and the heavy LOT adapters overlap)
    mixed = []
    for k in range(max(len(light), len(heavy))):
        mixed += light[k:k + 1] + heavy[k:k + 1]
    protocol.run_jobs(ctx, mixed, "refit_same_object", ignore=ign, min_chunk=2)


PARTS = [("cooc", part_cooc), ("ngram", c06.part_ngram), ("skipgram", c06.part_skipgram), ("edgelist", c06.part_edgelist),
         ("lz", c16.body), ("bpe", c09.body), ("hist", c20.part_hist), ("protocol", part_protocol), ("refit", part_refit)]


def run(ctx):
    ctx.scale = 0.3 if ctx.quick else 1.0      # the family parts run in full under their own property
    own = ("cooc", "protocol", "refit")
    tier = ctx.tier
    for name, fn in PARTS:
        if ctx.only and name not in ctx.only:
            continue
        ctx.log("part", name)
        # the re-used family parts keep their quick instance spaces (their thorough spaces run under C06 / C09 / C16 / C20);
        # the thorough tier of C01 deepens its own parts
        ctx.tier = tier if name in own else "quick"
        try:
            fn(ctx)
        finally:
            ctx.tier = tier
    ctx.exhaustive = False
    return ctx.finish(
        level="model_checking",
        rule="one case per (training input, transform input X' with unseen vocabulary / empty / longer items, configuration) enumerated "
             "or recorded for each row-producing family and decided by that family's specification (exact label-wise comparison, shape "
             "and row-order included), plus Protocol.tla shape clauses for the float-valued producers")


def replay(ctx, rep):
    print(json.dumps(rep)[:3000])
    return 0
