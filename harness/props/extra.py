"""EXTRA - specifications of behaviour beyond the listed properties (not in MANIFEST.json; run with `bin/check EXTRA`)."""
import json

from .. import tlc
from ..common import pool_map


def run(ctx):
    r = tlc.run_tlc("Categorical", dict(NObj=2, NVal=2, NCols=ctx.pick(1, 2), MaxRows=ctx.pick(4, 3), EMIT=True),
                    invariants=["Conserves", "UniqueHasNoRepeats", "EmitInv"], workers=1, timeout=3000, heap="6g")
    ctx.add_tlc(r, "Categorical.tla")
    ctx.tlc_violation(r, "Categorical")
    items = r.prints
    ctx.log("categorical tables:", len(items))
    res = pool_map("extra", "categorical", items, min_chunk=200)
    for it, rr in zip(items, res):
        ctx.evaluations += 1
        ctx.traces += 1
        ctx.nontriv(it["table"])
        if rr is None or "crash" in rr or "exc" in rr or not rr["ok"]:
            ctx.violation({"part": "categorical", "table": it["table"], "uniq": it["uniq"], "withName": it["withName"]}, {"item": it, "result": rr})
    jobs = [dict(seed=ctx.seed + i, n=200) for i in range(4)]
    for j, rr in zip(jobs, pool_map("extra", "variable_radii", jobs, nproc=4)):
        ctx.evaluations += 1
        if rr is None or "crash" in rr or "exc" in rr or not rr["ok"]:
            ctx.violation({"part": "variable_window_radii", "seed": j["seed"]}, {"job": j, "result": rr})
    ctx.sample({"table": items[3]["table"], "result": items[3]["result"]})
    # utils.sparse_collapse
    r = tlc.run_tlc("Collapse", dict(N=3, NLab=3, MaxVal=1, EMIT=True), invariants=["Conserves", "KeepsSymmetry", "IdentityWhenDistinct", "EmitInv"],
                    workers=1, timeout=3000, heap="6g")
    ctx.add_tlc(r, "Collapse.tla")
    ctx.tlc_violation(r, "Collapse")
    citems = r.prints
    ctx.log("collapse instances:", len(citems))
    for it, rr in zip(citems, pool_map("extra", "collapse", citems, min_chunk=500)):
        ctx.evaluations += 1
        ctx.traces += 1
        if rr is None or "crash" in rr or "exc" in rr or not rr["ok"]:
            ctx.violation({"part": "sparse_collapse", "mat": it["mat"], "lab": it["lab"]}, {"item": it, "result": rr})
    return ctx.finish(level="model_checking", rule="extra specifications: one case per table enumerated from Categorical.tla")


def replay(ctx, rep):
    print(json.dumps(rep)[:2000])
    return 0
