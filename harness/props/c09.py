"""C09 - byte-pair encodings are lossless, reproducible and within the vocabulary budget."""
import itertools
import json
import os
import random
import re
import shutil
import tempfile
from concurrent.futures import ThreadPoolExecutor

from .. import tlc
from ..common import MachineryError, pool_map

E = tlc.TLAExpr


def trainable(strings):
    cnt = {}
    for s in strings:
        for a, b in zip(s, s[1:]):
            cnt[(a, b)] = cnt.get((a, b), 0) + 1
    return bool(cnt) and max(cnt.values()) >= 2


def jobs_for(ctx):
    rng = random.Random(ctx.seed)
    S = [""] + ["".join(p) for n in range(1, ctx.pick(5, 6)) for p in itertools.product("ab", repeat=n)]
    S3 = ["".join(p) for n in range(2, 6) for p in itertools.product("abc", repeat=n)]
    extra = ["abab", "a", "", "abababab", "ab", "aaaa", "aaaaaaaa", "héllo wörld héllo", "\U0001F600ab\U0001F600ab", "中文中文中", "abcabcabc"]
    jobs = []
    n = ctx.n(ctx.pick(600, 8000))
    while len(jobs) < n:
        k = rng.randint(1, 3)
        pool = rng.choice([S, S, S3, extra + S])
        train = [rng.choice(pool) for _ in range(k)]
        if rng.random() < 0.3:
            train.append(rng.choice(extra))
        if not trainable(train):
            continue
        test = [rng.choice(S + S3 + extra) for _ in range(rng.randint(1, 3))]
        if rng.random() < 0.4:
            test.append(rng.choice(["xyz", "abxab", "b", "", "zzzz" + train[0]]))
        jobs.append(dict(train=train, test=test, reuse=len(jobs) % 3 == 1, cfg=dict(vocab=rng.choice([1, 2, 3, 8, 50]), minocc=rng.choice([1, 1, 2]),
                                                          mcc=rng.choice([0, 0, 97, "ascii"]))))
    return jobs


def validate(ctx, recs):
    tmp = tempfile.mkdtemp(prefix="verif_tr_")
    try:
        path = os.path.join(tmp, "t.json")
        with open(path, "w") as f:
            json.dump([{k: r[k] for k in ("strings", "tstrings", "mcc", "vocab", "codes", "tokens", "enc_ft", "enc_t")} for r in recs], f)
        r = tlc.run_tlc("Trace_BPE", {}, spec="Spec", invariants=["Verdict"], workers=1, env={"TRACE_FILE": path}, timeout=3000, heap="6g")
    finally:
        shutil.rmtree(tmp, ignore_errors=True)
    ctx.add_tlc(r, "Trace_BPE on %d recorded fits" % len(recs))
    out = {}
    for p in r.prints:
        if "verdict" in p:
            out[int(p["verdict"])] = sorted(p["clauses"])
    if len(out) != len(recs):
        raise MachineryError("Trace_BPE returned %d verdicts for %d fits\n%s" % (len(out), len(recs), r.raw[-2000:]))
    return out


def body(ctx):
    # (1) the design: every merge sequence on small strings keeps the encodings lossless and replayable; the contraction
    #     loop (with its guarded tail) is safe and equals the declarative contraction
    r = tlc.run_tlc("BPE", dict(Alphabet=E("{1,2}"), MaxLen=ctx.pick(4, 5), MaxStrings=2, MaxMerges=3, FIXED=True),
                    invariants=["Lossless", "Replayable", "WellFormed", "ContractionSafe"], workers=8, timeout=3000)
    ctx.add_tlc(r, "BPE.tla design (all merge sequences)")
    ctx.tlc_violation(r, "BPE design")
    # (2) recorded fits of the real vectorizer decided by Trace_BPE.tla
    jobs = jobs_for(ctx)
    res = pool_map("mixed", "record_bpe", jobs, min_chunk=30, timeout=3000)
    recs, owners = [], []
    for j, r in zip(jobs, res):
        ctx.evaluations += 1
        ident = {"train": j["train"], "test": j["test"], "cfg": j["cfg"]}
        if r is None or "crash" in r or "exc" in r or not r.get("ok"):
            ctx.violation(dict(ident, kind="raised", exc=(r or {}).get("exc", "")[:100], stage=(r or {}).get("stage")), {"job": j, "result": r})
            continue
        r["vocab"] = j["cfg"]["vocab"]
        recs.append(r)
        owners.append((j, ident))
    ctx.log("BPE recorded fits:", len(recs), "of", len(jobs))
    groups = [list(range(i, len(recs), 6)) for i in range(6)]
    with ThreadPoolExecutor(max_workers=6) as ex:
        vs = list(ex.map(lambda g: (g, validate(ctx, [recs[i] for i in g])), [g for g in groups if g]))
    for g, verdicts in vs:
        for pos, i in enumerate(g, 1):
            j, ident = owners[i]
            clauses = verdicts[pos] + list(recs[i]["output_fails"])
            if not recs[i].get("same_model", True):
                clauses.append("fit and fit_transform learn different models")
            if recs[i].get("fit_returns_self") is False:
                clauses.append("fit does not return self")
            if clauses:
                ctx.violation(dict(ident, kind="clauses", clauses=sorted(set(c[:80] for c in clauses))),
                              {"job": j, "recorded": recs[i], "clauses": clauses})
            else:
                ctx.traces += 1
                ctx.count("recorded_fits_accepted")
                if len(recs[i]["codes"]) >= 2 or any(len(s) <= 1 for s in j["train"] + j["test"]):
                    ctx.nontriv(ident)
    if owners:
        ctx.sample({"train": owners[0][0]["train"], "test": owners[0][0]["test"], "cfg": owners[0][0]["cfg"],
                    "code_list": recs[0]["codes"], "encodings": recs[0]["enc_ft"]})


def run(ctx):
    body(ctx)
    ctx.exhaustive = False
    ctx.assumptions += ["named precondition: some pair of adjacent characters occurs at least twice in the training strings "
                        "(otherwise training raises ValueError and nothing is claimed)"]
    return ctx.finish(
        level="model_checking",
        rule="one case per recorded fit (training strings, new strings, max_vocab_size, min_token_occurrence, max_char_code) whose "
             "code list, tokens and encodings (fit_transform and transform, all three return types) Trace_BPE.tla accepted; "
             "non-trivial = at least two merges or a string of length <= 1")


def replay(ctx, rep):
    res = pool_map("mixed", "record_bpe", [rep["detail"]["job"]])
    print(json.dumps(res[0])[:3000])
    return 0
