PARTS = []
