"""C14 tree part: pruning / masking / nullify on LabelledTreeCooccurrenceVectorizer through Tree.tla."""
from . import c15


def part_tree(ctx):
    c15.run_instances(ctx, c15.instances(ctx, mask_only=True), "tree_mask")


PARTS = [("tree", part_tree)]
