"""C03 - co-occurrence matrices equal the windowed, kernel-weighted count definition."""
import json

from .. import cooc_cfg, cooc_gen
from ..common import pool_map


def encode(items, seed):
    """the same configuration can be written with default-valued kernel arguments omitted or spelled out"""
    import random
    rng = random.Random(seed)
    for it in items:
        it["explicit"] = rng.random() < 0.3
        it["reuse"] = rng.random() < 0.3       # the fit().transform() estimator has a past (fitted on something else and used)
    return items


def judge(ctx, items, res, part, fam):
    for it, r in zip(items, res):
        ctx.evaluations += 1
        ctx.traces += 1
        ctx.count(part)
        if it["cells"]:
            ctx.nontriv({"f": fam, "c": it["corpus"], "ci": it["ci"], "p": part})
        ident = {"part": part, "family": fam, "corpus": it["corpus"], "cfg": cooc_cfg.describe(it["cfg"])}
        if r is None or "crash" in r:
            ctx.violation(dict(ident, kind="crash"), {"item": it, "result": r})
        elif "exc" in r:
            ctx.violation(dict(ident, kind="exception", exc=r["exc"]), {"item": it, "result": r})
        elif not r["ok"]:
            ctx.violation(dict(ident, kind="mismatch", where=r.get("where") or r.get("where_t")),
                          {"item": it, "result": r})
    if items:
        it = items[len(items) // 3]
        ctx.sample({"family": fam, "corpus": it["corpus"], "cfg": cooc_cfg.describe(it["cfg"]),
                    "expected_cells": it["cells"][:6]})


def part_token(ctx):
    # exhaustive: V=2, <= 2 docs of length <= 3 (quick) / <= 4 (thorough), 36 single-window configurations
    cfgs = cooc_cfg.quick_cfgs()
    items = cooc_gen.emit(ctx, 2, ctx.pick(3, 4), 2, cfgs, "Cooc exhaustive V=2")
    ctx.log("token exhaustive instances:", len(items))
    res = pool_map("cooc", "run_token", encode(items, ctx.seed), min_chunk=200)
    judge(ctx, items, res, "token_exhaustive", "token")
    # wider configuration space on V=3, one document
    cfgs = cooc_cfg.wide_cfgs(3, ctx.seed + 5, ctx.pick(40, 200))
    items = cooc_gen.emit(ctx, 3, ctx.pick(4, 5), 1, cfgs, "Cooc wide V=3")
    ctx.log("token wide instances:", len(items))
    res = pool_map("cooc", "run_token", encode(items, ctx.seed + 1), min_chunk=200)
    judge(ctx, items, res, "token_wide", "token")
    # variable window radii (window_functions="variable", power 0 / 2: exact rational radii from the corpus frequencies)
    import random
    rng = random.Random(ctx.seed + 6)
    base = cooc_cfg.quick_cfgs()[::3] + [c for c in cooc_cfg.wide_cfgs(3, ctx.seed + 9, 60) if not any(w["table"] for w in c["wins"])]
    cfgs = cooc_cfg.with_variable(base, rng)
    rng.shuffle(cfgs)
    cfgs = cfgs[: ctx.pick(16, 60)]
    items = cooc_gen.emit_shapes(ctx, 3, ctx.pick([(4, 1)], [(5, 1), (3, 2)]), cfgs, "Cooc variable radii V=3",
                          invariants=cooc_gen.INVS + ["VariableRadiiWellFormed"])
    if ctx.quick and len(items) > 4000:
        ctx.exhaustive = False
        items = rng.sample(items, 4000)
    ctx.log("token variable-radius instances:", len(items))
    res = pool_map("cooc", "run_token", encode(items, ctx.seed + 3), min_chunk=200)
    judge(ctx, items, res, "token_variable", "token")


def part_timed(ctx):
    cfgs = cooc_cfg.timed_cfgs(2, ctx.seed + 7, ctx.pick(16, 40))
    from .. import tlc
    items = cooc_gen.emit_shapes(ctx, 2, ctx.pick([(3, 1)], [(4, 1), (2, 2)]), cfgs, "Cooc timed V=2 gaps {0,1,2}",
                          extra_constants=dict(TIMED=True, Gaps=tlc.TLAExpr("{0,1,2}")))
    for it in items:
        it["shifts"] = [0, 1 << 24, 1600000000]
    ctx.log("timed instances:", len(items))
    res = pool_map("cooc", "run_timed", encode(items, ctx.seed + 2), min_chunk=100)
    judge(ctx, items, res, "timed", "timed")


def part_multi(ctx):
    cfgs = cooc_cfg.multi_cfgs(2, ctx.seed + 9, ctx.pick(24, 60))
    items = []
    for msets, mdocs in ctx.pick([(3, 1)], [(3, 1), (2, 2)]):
        items += cooc_gen.emit(ctx, 2, 1, 1, cfgs, "CoocMulti V=2 [sets<=%d docs<=%d]" % (msets, mdocs), module="CoocMulti",
                               invariants=["Refines", "DegeneratesToToken", "WindowMassOne"],
                               extra_constants=dict(MaxSet=2, MaxSets=msets, MaxDocs=mdocs))
    for it in items:
        it.pop("MaxLen", None)
    ctx.log("multi instances:", len(items))
    res = pool_map("cooc", "run_multi", encode(items, ctx.seed + 3), min_chunk=100)
    judge(ctx, items, res, "multi", "multi")


def part_ngram(ctx):
    cfgs = [c for c in cooc_cfg.quick_cfgs() if c["wins"][0]["r"] == 2][:: ctx.pick(2, 1)]
    cfgs += [c for c in cooc_cfg.wide_cfgs(2, ctx.seed + 13, 60) if not any(w["table"] for w in c["wins"])][: ctx.pick(10, 30)]
    for n in ctx.pick([2], [2, 3]):
        items = cooc_gen.emit(ctx, 2, ctx.pick(4, 5), 1, cfgs, "CoocNgram V=2 N=%d" % n, module="CoocNgram",
                              invariants=["Refines", "WindowMassOne"],
                              extra_constants=dict(N=n, MaxLen=ctx.pick(4, 5), MaxDocs=1))
        for it in items:
            it["N"] = n
        # every fit of this class re-compiles its kernel (a fresh tuple converter per instance): ~1 s each
        import random
        rng = random.Random(ctx.seed + n)
        keep = ctx.pick(160, 300)
        if len(items) > keep:
            ctx.exhaustive = False
            items = rng.sample(items, keep)
        ctx.log("ngram N=%d instances:" % n, len(items))
        res = pool_map("cooc", "run_ngram", encode(items, ctx.seed + 4), min_chunk=8)
        judge(ctx, items, res, "ngram", "ngram")


PARTS = [("token", part_token), ("timed", part_timed), ("multi", part_multi), ("ngram", part_ngram)]


def run(ctx):
    for name, fn in PARTS:
        if ctx.only and name not in ctx.only:
            continue
        ctx.log("part", name)
        fn(ctx)
    ctx.assumptions += ["geometric kernel instantiated with power 1/2 and harmonic radii <= 5 so that every weight is an "
                        "exact small rational; comparison tolerance 2e-5 relative (float32 accumulation)"]
    return ctx.finish(
        level="model_checking",
        rule="one case per (corpus, configuration) instance enumerated by TLC from Cooc.tla and replayed through "
             "fit_transform and fit().transform of the real vectorizer, compared label-wise with the spec's exact "
             "rational cells; non-trivial = the expected matrix has at least one non-zero cell")


def replay(ctx, rep):
    it = rep["detail"]["item"]
    res = pool_map("cooc", "run_token", [it])
    print(json.dumps(res[0])[:3000])
    return 0 if res[0].get("ok") else 1
