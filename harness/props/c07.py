"""C07 - the exact transport plan is a feasible, optimal coupling."""
import json
import os
import random
import re
import shutil
import tempfile
from concurrent.futures import ThreadPoolExecutor

from .. import tlc
from ..common import MachineryError, pool_map

LEMMAS = ["CertificateSound", "CertificateExists", "PlansNonEmpty", "WeakDuality"]


def part_exhaustive(ctx):
    shapes = ctx.pick([(1, 1, 3, 2), (1, 3, 4, 2), (3, 1, 4, 2), (2, 2, 4, 2), (2, 3, 3, 2), (3, 2, 3, 2), (1, 4, 4, 1), (3, 3, 3, 1)],
                      [(1, 1, 4, 3), (1, 4, 4, 2), (4, 1, 4, 2), (2, 2, 4, 3), (2, 3, 4, 2), (3, 2, 4, 2), (3, 3, 3, 1), (2, 4, 3, 1),
                       (4, 2, 3, 1)])

    def one(s):
        n, m, T, C = s
        r = tlc.run_tlc("Transport", dict(N=n, M=m, T=T, C=C, EMIT=True), invariants=LEMMAS + ["EmitInv"], workers=1,
                        timeout=3000, heap="6g")
        return s, r
    with ThreadPoolExecutor(max_workers=8) as ex:
        rs = list(ex.map(one, shapes))
    items = []
    for s, r in rs:
        ctx.add_tlc(r, "Transport %dx%d T=%d C=%d" % s)
        ctx.tlc_violation(r, "Transport lemmas %dx%d" % s[:2])
        items += r.prints
    if len(items) < 1000:
        raise MachineryError("Transport emitted too few instances")
    rng = random.Random(ctx.seed)
    if ctx.quick and len(items) > 40000:
        ctx.exhaustive = False
        items = rng.sample(items, 40000)
    ctx.log("transport instances", len(items))
    res = pool_map("transport", "run", items, min_chunk=2000)
    for it, r in zip(items, res):
        ctx.evaluations += 1
        ctx.traces += 1
        ctx.count("exhaustive")
        if it["nopt"] > 1 or 0 in it["a"] or 0 in it["b"]:
            ctx.nontriv(it)
        ident = {"part": "exhaustive", "a": it["a"], "b": it["b"], "c": it["c"]}
        if r is None or "crash" in r or "exc" in r:
            ctx.violation(dict(ident, kind="crash-or-exception"), {"item": it, "result": r})
        elif not r["ok"]:
            ctx.violation(dict(ident, kind="plan", what=sorted(set(k for f in r["fails"] for k in f if k not in ("layout", "opt")))),
                          {"item": it, "result": r})
    ctx.sample({"a": items[9]["a"], "b": items[9]["b"], "c": items[9]["c"], "optimum_times_T": items[9]["opt"]})


def validate(ctx, recs, what):
    tmp = tempfile.mkdtemp(prefix="verif_tr_")
    try:
        path = os.path.join(tmp, "b.json")
        batch = [{"a": r["a"], "b": r["b"], "c": r["c"], "u": r["u"], "v": r["v"], "hasP": "P" in r,
                  "P": r.get("P", [[0]])} for r in recs]
        with open(path, "w") as f:
            json.dump(batch, f)
        r = tlc.run_tlc("Trace_Transport", {}, spec="Spec", invariants=["Verdict"], workers=1, env={"TRACE_FILE": path},
                        timeout=3000, heap="8g")
    finally:
        shutil.rmtree(tmp, ignore_errors=True)
    ctx.add_tlc(r, what)
    out = {}
    for line in r.raw.splitlines():
        m = re.match(r'<<"VERDICT", (\d+), (TRUE|FALSE), (-?\d+), (TRUE|FALSE)>>', line.strip())
        if m:
            out[int(m.group(1))] = (m.group(2) == "TRUE", int(m.group(3)), m.group(4) == "TRUE")
    if len(out) != len(recs):
        raise MachineryError("Trace_Transport returned %d verdicts for %d traces\n%s" % (len(out), len(recs), r.raw[-1500:]))
    return out


def part_certificates(ctx):
    rng = random.Random(ctx.seed + 5)
    jobs = []
    nsmall = ctx.pick(150, 3000)
    for k in range(nsmall):
        n, m = rng.randint(1, 7), rng.randint(1, 7)
        jobs.append(dict(n=n, m=m, T=rng.choice([7, 24, 100, 1000]), C=rng.choice([1, 3, 9]), seed=rng.randrange(1 << 30),
                         div=rng.choice([1, 7]), style=rng.choice(["uniform", "unbalanced"]), zeros=rng.random() < 0.2,
                         ties=rng.random() < 0.3))
    # sizes on both sides of n*m = 65536 and rectangular extremes
    big = ctx.pick([(255, 257), (256, 257), (90, 800)], [(255, 257), (256, 257), (300, 280), (90, 800), (700, 100), (1, 3000), (2500, 1), (400, 400)])
    for n, m in big:
        jobs.append(dict(n=n, m=m, T=1000000, C=50, seed=rng.randrange(1 << 30), div=1, style="uniform"))
    res = pool_map("transport", "record", jobs, min_chunk=10, timeout=3000)
    recs, owners = [], []
    for j, r in zip(jobs, res):
        ctx.evaluations += 1
        ident = {"part": "certificate", "n": j["n"], "m": j["m"], "T": j["T"], "C": j["C"], "seed": j["seed"], "div": j["div"],
                 "style": j.get("style"), "zeros": j.get("zeros", False), "ties": j.get("ties", False)}
        if r is None or "crash" in r or "exc" in r:
            ctx.violation(dict(ident, kind="crash-or-exception", exc=(r or {}).get("exc")), {"job": j, "result": {k: v for k, v in (r or {}).items() if k not in ("c", "P")}})
            continue
        if r["bad"]:
            ctx.violation(dict(ident, kind="infeasible-plan", what=sorted(r["bad"])), {"job": j, "bad": r["bad"]})
            continue
        if "u" not in r:
            raise MachineryError("no dual solution for %s" % j)
        recs.append(r)
        owners.append((j, ident))
    small = [i for i, r in enumerate(recs) if r["n"] * r["m"] <= 4000]
    bigs = [i for i, r in enumerate(recs) if r["n"] * r["m"] > 4000]
    groups = [small[i::4] for i in range(4)] + [[i] for i in bigs]
    groups = [g for g in groups if g]

    def val(g):
        return g, validate(ctx, [recs[i] for i in g], "Trace_Transport batch of %d" % len(g))
    with ThreadPoolExecutor(max_workers=6) as ex:
        for g, verdicts in ex.map(val, groups):
            for pos, i in enumerate(g, 1):
                feas, dual, cert = verdicts[pos]
                r = recs[i]
                j, ident = owners[i]
                if not feas:
                    raise MachineryError("independent dual solution is not feasible (rounding?) for %s" % j)
                ctx.traces += 1
                ctx.count("certificates_checked")
                ctx.nontriv(ident)
                gap = r["cost_T"] - dual
                if gap > 1e-7 * max(1.0, abs(dual)) + 1e-6:
                    ctx.violation(dict(ident, kind="suboptimal-plan"), {"job": j, "cost_T": r["cost_T"], "dual_bound": dual})
                elif "P" in r and not cert:
                    ctx.violation(dict(ident, kind="certificate-rejected"), {"job": j, "cost_T": r["cost_T"], "dual_bound": dual})
    if owners:
        ctx.sample({"recorded_instance": owners[0][0]})


PARTS = [("exhaustive", part_exhaustive), ("certificates", part_certificates)]


def run(ctx):
    for name, fn in PARTS:
        if ctx.only and name not in ctx.only:
            continue
        ctx.log("part", name)
        fn(ctx)
    ctx.assumptions += ["masses are integers over a common total and costs integers (or integers / 7), so optimum and "
                        "certificates are exact; tolerances exactly those of the statement (marginals 1e-9, cost 1e-7 relative)",
                        "for recorded instances the dual potentials come from an independent LP solve (HiGHS); TLC decides "
                        "their feasibility, weak duality (model-checked lemma) turns them into a lower bound on every coupling"]
    return ctx.finish(
        level="model_checking",
        rule="S->C: one case per integer instance (a, b, c) enumerated by TLC with its optimum, solved by the real transport_plan "
             "with C- and F-ordered cost matrices; C->S: one case per recorded random instance whose dual certificate TLC "
             "accepted; non-trivial = tied optima or zero-mass entries (enumerated) / any recorded instance")


def replay(ctx, rep):
    d = rep["detail"]
    if "item" in d:
        res = pool_map("transport", "run", [d["item"]])
    else:
        res = pool_map("transport", "record", [d["job"]])
        res = [{k: v for k, v in res[0].items() if k not in ("c", "P", "a", "b", "u", "v")}]
    print(json.dumps(res[0])[:3000])
    return 0 if res[0].get("ok", not res[0].get("bad")) else 1
