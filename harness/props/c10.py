"""C10 - compiled kernels never access memory outside their arrays.

(a) design: the algorithmic specifications carry the access invariants and TLC checks them on every bounded instance:
    CooBuffer.tla NoOOB / Room / Layout, EMStep.tla NoOOB (guarded read), BPE.tla ContractionSafe (loop variable assigned, index in
    range), SparseOps.tla FitsBuffer, SlidingWindow.tla InRange.
(b) binding: instance sets of the other properties (generated from the specifications) are executed in three subprocess modes -
    compiled, NUMBA_BOUNDSCHECK=1, NUMBA_DISABLE_JIT=1 - and every result is compared with the compiled one: an IndexError /
    UnboundLocalError, an abnormal exit or a differing result in a checked mode is a violation.
"""
import json
import random

from .. import cooc_cfg, cooc_gen, sw_cfg, tlc
from ..common import MachineryError, pool_map
from . import c09, c16

E = tlc.TLAExpr
MEMORY_ERRORS = ("IndexError", "UnboundLocalError")


def design(ctx):
    runs = [
        ("CooBuffer", dict(LIMIT=3, CAP0=20, Keys=E("0..3"), Vals=E("{1}"), MaxAppends=ctx.pick(8, 12), FIXED=True, EMIT=False),
         ["NoOOB", "Room", "Layout", "RunsSorted"], dict(view="view")),
        ("EMStep", dict(V=2, MaxLen=ctx.pick(3, 4), R=2, PMax=1, GUARDED=True, EMIT=False), ["NoOOB", "AlgIsDecl"], {}),
        ("BPE", dict(Alphabet=E("{1,2}"), MaxLen=ctx.pick(3, 4), MaxStrings=2, MaxMerges=2, FIXED=True), ["ContractionSafe"], {}),
        ("SparseOps", dict(Dim=3, Vals=E("{-1,0,1,2}"), EMIT=False), ["FitsBuffer", "SumOK", "MulOK"], {}),
    ]
    for mod, const, invs, kw in runs:
        r = tlc.run_tlc(mod, const, invariants=invs, workers=8, timeout=3000, **kw)
        ctx.add_tlc(r, "%s access invariants" % mod)
        ctx.tlc_violation(r, "%s access invariants" % mod)
    allx = sw_cfg.instances("quick", ctx.seed)["all"]
    rng = random.Random(ctx.seed)
    sub = rng.sample(allx, ctx.pick(800, 6000))
    r = tlc.run_tlc("SlidingWindow", dict(Insts=[sw_cfg.tla_inst(x) for x in sub], EMIT=False), invariants=["InRange", "LastFits"], workers=4,
                    timeout=3000)
    ctx.add_tlc(r, "SlidingWindow InRange")
    ctx.tlc_violation(r, "SlidingWindow InRange")
    # the unguarded / unfixed variants really violate the invariants (the invariants are not vacuous)
    for mod, const, invs in [("EMStep", dict(V=2, MaxLen=3, R=2, PMax=1, GUARDED=False, EMIT=False), ["NoOOB"]),
                             ("BPE", dict(Alphabet=E("{1,2}"), MaxLen=2, MaxStrings=1, MaxMerges=1, FIXED=False), ["ContractionSafe"]),
                             ("CooBuffer", dict(LIMIT=3, CAP0=8, Keys=E("0..9"), Vals=E("{1}"), MaxAppends=12, FIXED=True, EMIT=False), ["Room"])]:
        r = tlc.run_tlc(mod, const, invariants=invs, workers=4, timeout=3000, **({"view": "view"} if mod == "CooBuffer" else {}))
        ctx.tlc_runs.append({"what": "%s without the guard must violate %s" % (mod, invs), "violated": r.violated})
        if not r.violated:
            raise MachineryError("vacuity control: %s without its guard does not violate %s" % (mod, invs))


def modes(ctx, name, worker, func, items, env=None, nojit=True, nproc=None, min_chunk=1):
    """run items compiled / bounds-checked / interpreted and compare"""
    base = pool_map(worker, func, items, mode="jit", env=env, nproc=nproc, min_chunk=min_chunk, timeout=3000)
    for mode in ["boundscheck"] + (["nojit"] if nojit else []):
        res = pool_map(worker, func, items, mode=mode, env=env, nproc=nproc, min_chunk=min_chunk, timeout=3000)
        skipped = 0
        for it, b, r in zip(items, base, res):
            ctx.evaluations += 1
            ident = {"part": name, "mode": mode, "item": _small(it)}
            if r is None or "crash" in r:
                ctx.violation(dict(ident, kind="abnormal-termination"), {"item": it, "result": r, "compiled": b})
            elif "exc" in r:
                if r["exc"] in MEMORY_ERRORS:
                    ctx.violation(dict(ident, kind=r["exc"]), {"item": it, "result": r})
                elif b is not None and "exc" in b and b["exc"] == r["exc"]:
                    ctx.traces += 1                     # the same (non memory) exception in every mode
                else:
                    skipped += 1                        # an exception that only exists in this mode (python scalar semantics)
            elif json.dumps(_strip(r), sort_keys=True) != json.dumps(_strip(b), sort_keys=True):
                ctx.violation(dict(ident, kind="result differs from compiled execution"), {"item": it, "result": r, "compiled": b})
            else:
                ctx.traces += 1
                ctx.count(name + "_" + mode)
                ctx.nontriv({"n": name, "m": mode, "i": _small(it)})
        if skipped:
            ctx.parts[name + "_" + mode + "_mode_artefacts_skipped"] = skipped
    for it, b in zip(items, base):
        if b is None or "crash" in b or (isinstance(b, dict) and b.get("ok") is False):
            ctx.violation({"part": name, "mode": "jit", "kind": "compiled run fails its own specification", "item": _small(it)},
                          {"item": it, "result": b})
    if items:
        ctx.sample({"part": name, "item": _small(items[0])}, limit=8)


def _small(it):
    s = json.dumps(it, sort_keys=True, default=str)
    return json.loads(s) if len(s) < 400 else {"digest": s[:300]}


def _strip(r):
    if isinstance(r, dict):
        return {k: _strip(v) for k, v in r.items() if k not in ("tb", "wall")}
    if isinstance(r, float):
        return round(r, 9)
    if isinstance(r, list):
        return [_strip(x) for x in r]
    return r


def binding(ctx):
    rng = random.Random(ctx.seed + 17)
    n = ctx.pick(1, 4)
    # accumulator states (tiny buffers, growth) - TLC emitted
    r = tlc.run_tlc("CooBuffer", dict(LIMIT=3, CAP0=20, Keys=E("0..2"), Vals=E("{1,2}"), MaxAppends=6, FIXED=True, EMIT=True),
                    invariants=["NoOOB", "EmitInv"], view="view", workers=1, timeout=1800)
    ctx.add_tlc(r, "CooBuffer states for the mode comparison")
    items = [dict(limit=3, cap0=20, h=p["h"], st=p["st"], fin=p["fin"]) for p in r.prints]
    modes(ctx, "coo_append", "coo", "replay", rng.sample(items, min(len(items), 300 * n)),
          env={"VECTORIZERS_VERIF": "1", "VECTORIZERS_VERIF_COO_LIMIT": 3}, nproc=3, min_chunk=100)
    # EM steps with pruned cells
    r = tlc.run_tlc("EMStep", dict(V=2, MaxLen=3, R=2, PMax=1, GUARDED=True, EMIT=True), invariants=["EmitInv"], workers=1, timeout=1800)
    ctx.add_tlc(r, "EMStep instances for the mode comparison")
    em = [dict(p, V=2, R=2) for p in r.prints]
    modes(ctx, "em_update_matrix", "em", "step", rng.sample(em, min(len(em), 150 * n)), nproc=3, min_chunk=50)
    # co-occurrence pipelines: radii larger than the sequences, empty documents, tiny buffers
    cfgs = [cooc_cfg.cfg("flat", True, [cooc_cfg.win("directional", 3)]), cooc_cfg.cfg("harmonic", False, [cooc_cfg.win("after", 2, offset=1)])]
    its = cooc_gen.emit(ctx, 2, 3, 2, cfgs, "Cooc instances for the mode comparison")
    its = rng.sample(its, min(len(its), 40 * n))
    for it in its:
        it.update(family=rng.choice(["token", "timed", "multi"]) if False else "token", modes=["ft", "small_t"],
                  extra=dict(coo_initial_memory="1k", n_threads=rng.choice([1, 2])))
    modes(ctx, "cooc_pipeline", "cooc", "run", its, nproc=4, min_chunk=10)
    # BPE / LZ on strings of length 0, 1, 2
    modes(ctx, "bpe", "mixed", "record_bpe", c09.jobs_for(ctx)[: 30 * n], nproc=3, min_chunk=10)
    modes(ctx, "lz", "mixed", "record_lz", [j for j in c16.jobs_for(ctx) if j["cfg"]["hash"] != "murmur"][: 30 * n], nproc=3, min_chunk=10)
    # sparse helpers and distances
    r = tlc.run_tlc("SparseOps", dict(Dim=3, Vals=E("{-1,0,1,2}"), EMIT=True), invariants=["EmitInv"], workers=1, timeout=1800)
    ctx.add_tlc(r, "SparseOps pairs for the mode comparison")
    # boundary pairs first (empty vectors, single entries: where a merge loop or a mask can run off an empty buffer), then a sample
    small = [p for p in r.prints if len(p["a"][0]) <= 1 and len(p["b"][0]) <= 1]
    modes(ctx, "sparse_helpers", "dist", "run_sparse", small + rng.sample(r.prints, 200 * n), nproc=3, min_chunk=60)
    r = tlc.run_tlc("Dist", dict(Dim=3, Entries=E("{0,1,4,9}"), EMIT=True, Triples=False), invariants=["EmitInv"], workers=1, timeout=1800)
    ctx.add_tlc(r, "Dist pairs for the mode comparison")
    sparse_pairs = [p for p in r.prints if sum(1 for v in p["x"] if v) <= 1 and sum(1 for v in p["y"] if v) <= 1]
    modes(ctx, "distances", "dist", "run_dist", sparse_pairs + rng.sample(r.prints, 100 * n), nproc=3, min_chunk=30)
    # information weights on every storage format of the same matrices (unsorted CSC indices, explicit zeros, duplicates)
    from . import c17
    r = tlc.run_tlc("InfoWeight", dict(MODE="encodings", Bases=c17.BASES, NR=3, NC=3, MaxLen=7, MaxSteps=2, DRows=1, DMax=1,
                                       Strengths=E("{1}"), EMIT=True), invariants=["SameMatrix", "EmitInv"], workers=1, view="view", timeout=1800,
                    heap="6g")
    ctx.add_tlc(r, "InfoWeight encodings for the mode comparison")
    by = {}
    for p in r.prints:
        by.setdefault(p["bi"], []).append(p["enc"])
    iwi = []
    for bi, encs in sorted(by.items()):
        rng.shuffle(encs)
        for k in range(0, min(len(encs), 12 * n), 4):
            iwi.append(dict(bi=bi, encs=[c17.BASES[bi - 1]] + encs[k:k + 4], nr=3, nc=3, fmts=["coo", "csr", "csc", "csc_unsorted", "lil", "dense"],
                            perm_r=rng.sample(range(3), 3), perm_c=rng.sample(range(3), 3)))
    modes(ctx, "information_weight", "iw", "encodings", iwi, nproc=4, min_chunk=3)
    # sliding windows (every fit compiles a new kernel: few instances)
    sw = sw_cfg.instances("quick", ctx.seed)["replay"][: 12 * n]
    shard = tlc.run_tlc("SlidingWindow", dict(Insts=[sw_cfg.tla_inst(x) for x in sw], EMIT=True), invariants=["InRange", "EmitInv"], workers=1,
                        timeout=1800)
    ctx.add_tlc(shard, "SlidingWindow instances for the mode comparison")
    swi = [dict(p, inst=sw[p["ii"] - 1]) for p in shard.prints]
    modes(ctx, "sliding_windows", "sw", "run", swi, nproc=4, min_chunk=3)


PARTS = [("design", design), ("binding", binding)]


def run(ctx):
    for name, fn in PARTS:
        if ctx.only and name not in ctx.only:
            continue
        ctx.log("part", name)
        fn(ctx)
    ctx.exhaustive = False
    ctx.assumptions += ["only the transcribed kernels (COO accumulator, EM step, pair contraction, sparse merges, sliding windows) carry "
                        "model-checked access invariants; every other kernel is covered through the executions in the two checked modes",
                        "exceptions that exist only under NUMBA_DISABLE_JIT (python / numpy scalar semantics) are counted, not reported"]
    return ctx.finish(
        level="model_checking",
        rule="design: access invariants model-checked on the algorithmic specifications (with a vacuity control: the unguarded variants "
             "violate them); binding: one case per (instance, checked mode) whose execution under NUMBA_BOUNDSCHECK=1 / "
             "NUMBA_DISABLE_JIT=1 raised no index / unbound-variable error and returned exactly the compiled result")


def replay(ctx, rep):
    print(json.dumps(rep)[:3000])
    return 0
