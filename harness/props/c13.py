"""C13 - calls are free of side effects, repeatable, and leave nothing behind."""
import json
import random

from .. import adapters, protocol
from ..common import pool_map
from .c02 import all_adapters, call


# fit_returns_self belongs to C02; "transform_changed_the_model" (some attribute of the estimator differs after transform) is
# stricter than the statement - what C13 demands is that later results do not change, which is the memo clause
IGN = ("fit_returns_self", "transform_changed_the_model")


def run(ctx):
    import os
    rng = random.Random(ctx.seed)
    hs = protocol.generate(ctx, 4, 3, 4, ["fit", "fit_transform", "transform", "refit", "knob"], nknobs=3,
                           simulate="num=%d" % ctx.pick(1500, 15000), seed=ctx.seed + 1,
                           what="Protocol histories with refit and knobs (simulate)")
    hs = [h for h in hs if sum(1 for c in h if c["op"] == "transform") >= 1]
    base = [[call("fit", [1, 2, 3]), call("transform", [1, 2]), call("transform", [3, 3, 1]), call("transform", [1, 2])],
            [call("fit_transform", [2, 1, 4]), call("refit", [2, 1, 4]), call("transform", [2, 1, 4]), call("fit", [2, 1, 4])],
            [call("fit", [1, 2, 3, 4]), {"op": "knob", "b": [], "knob": 1, "expect_ok": True}, call("transform", [4, 1]),
             {"op": "knob", "b": [], "knob": 2, "expect_ok": True}, call("transform", [4, 1])]]
    only = os.environ.get("VERIF_ADAPTERS")
    jobs = []
    per = ctx.pick(2, 7)
    for name, cls in sorted(all_adapters().items()):
        if only and not any(o in name for o in only.split(",")):
            continue
        for ci in range(len(cls.configs)):
            whole = cls.kind == adapters.WHOLE
            for h in base + rng.sample(hs, min(len(hs), per)):
                if whole:
                    h = [dict(c, b=c["b"][:1]) for c in h]
                jobs.append(dict(adapter=name, cfg=ci, seed=ctx.seed, history=h))
    # fault sequences: the data source of a blocked (memory_size="1k") generator fit / transform raises part-way, i.e. while
    # the memmap scratch file exists; afterwards the estimator must still answer as before and nothing may be left behind
    gen = "WassersteinVectorizer[LOT_exact,generator]"
    if not only or "generator" in only:
        bad = lambda op, b: {"op": op, "b": b, "knob": 0, "expect_ok": False}   # noqa
        for ci in (1, 2):
            jobs.append(dict(adapter=gen, cfg=ci, seed=ctx.seed, history=[
                call("fit", [1, 2, 3, 4, 5, 6, 7, 8]), call("transform", [1, 2]), bad("transform", [3, 4, 5, 6, 7, 8, 1, 99, 2]),
                call("transform", [2, 1]), bad("fit", [1, 2, 3, 4, 5, 6, 99, 7, 8]), call("fit", [1, 2, 3, 4, 5, 6, 7, 8]),
                call("transform", [1, 2])]))
    seen, uniq = set(), []
    for j in jobs:
        k = json.dumps([j["adapter"], j["cfg"], j["history"]], sort_keys=True)
        if k not in seen:
            seen.add(k)
            uniq.append(j)
    ctx.log("C13 histories to replay:", len(uniq))
    light = [j for j in uniq if not all_adapters()[j["adapter"]].heavy]
    heavy = sorted([j for j in uniq if all_adapters()[j["adapter"]].heavy], key=lambda j: (j["adapter"], j["cfg"]))
    protocol.run_jobs(ctx, light, "side_effects", ignore=IGN, min_chunk=6,
                      nontrivial=lambda j: len(j["history"]) >= 3)
    protocol.run_jobs(ctx, heavy, "side_effects_lot", ignore=IGN, min_chunk=max(6, len(heavy) // 12),
                      nontrivial=lambda j: len(j["history"]) >= 3)
    ctx.exhaustive = False
    ctx.assumptions += ["side effects are observed through deep snapshots of the call arguments, of constructor parameter objects "
                        "(get_params), of every attribute of the estimator (transform must leave them unchanged) and of a private "
                        "TMPDIR; model equality of two fits with the same integer seed at 1e-9"]
    return ctx.finish(
        level="model_checking",
        rule="one case per (estimator, configuration, call history over fit / fit_transform / transform / refit / knob) generated "
             "from Protocol.tla, replayed with snapshots around every call and accepted by Trace_Protocol.tla; non-trivial = at "
             "least three calls")


def replay(ctx, rep):
    res = pool_map("proto", "run_history", [rep["detail"]["job"]])
    print(json.dumps(res[0])[:4000])
    return 0
