"""C06 - n-gram, skip-gram and edge-list matrices hold exact counts; '+' merges models."""
import json
import random
from concurrent.futures import ThreadPoolExecutor

from .. import count_cfg, tlc
from ..common import MachineryError, pool_map


def emit(ctx, module, cfgs, render, consts, invariants, what, shards=8, simulate=None, depth=None):
    shards = max(1, min(shards, len(cfgs)))
    groups = [list(range(i, len(cfgs), shards)) for i in range(shards)]

    def one(g):
        c = dict(consts, Cfgs=[render(cfgs[i]) for i in g], NCfg=len(g), EMIT=True)
        if module == "EdgeList":
            c.pop("V"), c.pop("NCfg")
        return g, tlc.run_tlc(module, c, invariants=list(invariants) + ["EmitInv"], workers=1, timeout=3000,
                              simulate=simulate, depth=depth, seed=ctx.seed if simulate else None)
    with ThreadPoolExecutor(max_workers=shards) as ex:
        rs = list(ex.map(one, groups))
    items = []
    for g, r in rs:
        ctx.add_tlc(r, what)
        ctx.tlc_violation(r, what)
        for p in r.prints:
            items.append(dict(p, ci=g[p["ci"] - 1], cfg=cfgs[g[p["ci"] - 1]], V=consts["V"]))
    return items


def judge(ctx, items, res, part, nontrivial):
    for it, r in zip(items, res):
        ctx.evaluations += 1
        ctx.traces += 1
        ctx.count(part)
        if nontrivial(it):
            ctx.nontriv({"p": part, "c": it.get("corpus") or it.get("edges"), "t": it.get("test"), "ci": it.get("ci")})
        ident = {"part": part, "cfg": it.get("cfg"), "corpus": it.get("corpus") or it.get("edges"), "test": it.get("test")}
        if r is None or "crash" in r or "exc" in r:
            ctx.violation(dict(ident, kind="crash-or-exception", exc=(r or {}).get("exc")), {"item": it, "result": r})
        elif not r["ok"]:
            if r.get("signature"):
                ident = dict(ident, signature=r["signature"])
            ctx.violation(dict(ident, kind="mismatch", what=[f.get("what") for f in r["fails"]]), {"item": it, "result": r})


def part_ngram(ctx):
    rng = random.Random(ctx.seed)
    cfgs = count_cfg.ngram_cfgs(ctx.seed + 1, ctx.pick(16, 40))
    items = emit(ctx, "Ngram", cfgs, count_cfg.tla_ngram,
                 dict(V=2, MaxLen=ctx.pick(3, 4), MaxDocs=2, TMaxLen=3, TMaxDocs=1),
                 ["TransformOfTrainIsTrain", "RowTotals", "PreLen", "MergeLemma"], "Ngram exhaustive V=2")
    if len(items) < 500:
        raise MachineryError("Ngram emitted too few instances")
    if ctx.quick and len(items) > ctx.n(25000):
        ctx.exhaustive = False
        items = rng.sample(items, ctx.n(25000))
    ctx.log("ngram instances", len(items))
    res = pool_map("counts", "run_ngram", items, min_chunk=300)
    judge(ctx, items, res, "ngram", lambda it: bool(it["trans"]))
    it = items[len(items) // 2]
    ctx.sample({"part": "ngram", "train": it["corpus"], "transform": it["test"], "cfg": it["cfg"], "expected_transform": it["trans"][:5]})
    # merge of unigram models: every (A, B) pair of the enumeration with the default configuration
    merge = [it for it in items if it["cfg"] == cfgs[0]]
    ctx.log("merge instances", len(merge))
    res = pool_map("counts", "run_merge", merge, min_chunk=300)
    judge(ctx, merge, res, "merge", lambda it: any(it["test"]))


def part_skipgram(ctx):
    rng = random.Random(ctx.seed + 2)
    T = count_cfg.tok
    cfgs = [dict(kernel=k, r=r, mask=False, tok=T()) for k in ("flat", "harmonic") for r in (1, 2, 3)]
    cfgs += [dict(kernel="flat", r=2, mask=False, tok=T(minOcc=2)), dict(kernel="harmonic", r=2, mask=False, tok=T(maxOcc=2)),
             dict(kernel="flat", r=1, mask=False, tok=T(excluded=(0,))), dict(kernel="flat", r=2, mask=False, tok=T(maxUnique=1)),
             dict(kernel="harmonic", r=3, mask=False, tok=T(minDocOcc=2))]
    items = emit(ctx, "Skipgram", cfgs, count_cfg.tla_ngram,
                 dict(V=ctx.pick(2, 3), MaxLen=3, MaxDocs=2, TMaxLen=2, TMaxDocs=ctx.pick(2, 1)),
                 ["RowTotals"], "Skipgram exhaustive")
    if ctx.quick and len(items) > ctx.n(20000):
        ctx.exhaustive = False
        items = rng.sample(items, ctx.n(20000))
    ctx.log("skipgram instances", len(items))
    res = pool_map("counts", "run_skipgram", items, min_chunk=300)
    judge(ctx, items, res, "skipgram", lambda it: bool(it["trans"]))
    it = items[len(items) // 2]
    ctx.sample({"part": "skipgram", "train": it["corpus"], "transform": it["test"], "cfg": it["cfg"], "expected_transform": it["trans"][:5]})


def part_edgelist(ctx):
    rng = random.Random(ctx.seed + 3)
    cfgs = [dict(joint=False, rowdict=[], coldict=[]), dict(joint=True, rowdict=[], coldict=[]),
            dict(joint=False, rowdict=[[0, 0], [2, 3]], coldict=[]), dict(joint=False, rowdict=[], coldict=[[1, 0], [0, 1]]),
            dict(joint=True, rowdict=[[0, 1], [1, 0]], coldict=[]), dict(joint=True, rowdict=[], coldict=[[0, 0], [1, 2]]),
            dict(joint=False, rowdict=[[1, 0]], coldict=[[0, 0], [1, 1], [2, 2]]),
            dict(joint=True, rowdict=[[1, 0]], coldict=[]), dict(joint=True, rowdict=[], coldict=[[0, 0]])]
    items = emit(ctx, "EdgeList", cfgs, lambda c: c,
                 dict(V=0, L=2, Vals=tlc.TLAExpr("{-1, 0, 2}"), MaxEdges=2, TMaxEdges=2), ["Conservation"], "EdgeList exhaustive")
    for it in items:
        it.pop("V", None)
        it["styles"] = ["str", "int"] if rng.random() < 0.3 else ["str"]
    if ctx.quick and len(items) > ctx.n(30000):
        ctx.exhaustive = False
        items = rng.sample(items, ctx.n(30000))
    ctx.log("edgelist instances", len(items))
    res = pool_map("counts", "run_edgelist", items, min_chunk=500)
    judge(ctx, items, res, "edgelist", lambda it: bool(it["trans"]))
    it = items[len(items) // 2]
    ctx.sample({"part": "edgelist", "train_edges": it["edges"], "transform_edges": it["test"], "cfg": it["cfg"],
                "expected_shape": it["shape"], "expected_transform": it["trans"][:5]})


PARTS = [("ngram", part_ngram), ("skipgram", part_skipgram), ("edgelist", part_edgelist)]


def run(ctx):
    for name, fn in PARTS:
        if ctx.only and name not in ctx.only:
            continue
        ctx.log("part", name)
        fn(ctx)
    return ctx.finish(
        level="model_checking",
        rule="one case per (training corpus, transform corpus, configuration) enumerated by TLC and replayed through "
             "fit_transform / fit().transform / '+' of the real classes, compared label-wise with exact counts; "
             "non-trivial = the expected transform result has a non-zero cell")


def replay(ctx, rep):
    it = rep["detail"]["item"]
    fn = {"ngram": "run_ngram", "merge": "run_merge", "skipgram": "run_skipgram", "edgelist": "run_edgelist"}[rep["ident"]["part"]]
    res = pool_map("counts", fn, [it])
    print(json.dumps(res[0])[:3000])
    return 0 if res[0].get("ok") else 1
