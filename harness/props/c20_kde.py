"""C20 (KDE part): rows are non-negative densities on the fitted grid that depend only on the multiset of values."""
import random

from .. import adapters, protocol


def call(op, b):
    return {"op": op, "b": b, "knob": 0, "expect_ok": True}


def part_kde(ctx):
    rng = random.Random(ctx.seed)
    hs = protocol.generate(ctx, 6, 3, 3, ["fit", "transform"], simulate="num=%d" % ctx.pick(300, 3000), seed=ctx.seed + 2,
                           what="Protocol fit->transform histories over 6 items (two pairs share a bag of values)")
    hs = [h for h in hs if h[0]["op"] == "fit"]
    base = [[call("fit", [1, 2, 3]), call("transform", [1, 4]), call("transform", [4, 2, 6])],
            [call("fit", [4, 6, 5]), call("transform", [1, 2]), call("transform", [6, 4, 1])]]
    cls = adapters.ALL["KDEVectorizer"]
    idmap = {"4": 1, "6": 2}           # items 4 / 6 are permutations of items 1 / 2: same multiset of values
    jobs = []
    for ci in range(len(cls.configs)):
        for h in base + rng.sample(hs, min(len(hs), ctx.pick(12, 120))):
            jobs.append(dict(adapter="KDEVectorizer", cfg=ci, seed=ctx.seed, history=h, idmap=idmap))

    def extra(j, rec):
        bad = []
        n = cls.configs[j["cfg"]].get("n_components", 50)
        for s in rec["steps"]:
            o = s["o"]
            if o["rows"]:
                if o.get("min", 0.0) < -1e-12:
                    bad.append("negative density")
                if not o.get("finite", True):
                    bad.append("non-finite density")
                if o["width"] != n:
                    bad.append("width %s instead of n_components %s" % (o["width"], n))
        return sorted(set(bad))
    protocol.run_jobs(ctx, jobs, "kde_bag", ignore=("arguments_modified", "transform_changed_the_model", "same_seed_same_model"),
                      extra_check=extra, min_chunk=10, nontrivial=lambda j: any(x in (4, 6) for c in j["history"] for x in c["b"]))


PARTS = [("kde", part_kde)]
