"""C11 - EM refinement and epsilon thresholding follow the documented procedure."""
import json
import os
import random
import shutil
import tempfile

from .. import tlc
from ..common import MachineryError, pool_map


def part_step(ctx):
    """one EM step on enumerated (document, prior) pairs incl. priors with missing cells"""
    rng = random.Random(ctx.seed)
    r = tlc.run_tlc("EMStep", dict(V=2, MaxLen=3, R=2, PMax=1, GUARDED=True, EMIT=False),
                    invariants=["NoOOB", "AlgIsDecl", "SupportNeverGrows", "RowLocalUnitMass"], workers=8, timeout=3000)
    ctx.add_tlc(r, "EMStep.tla: guarded algorithm = declarative step (all instances)")
    ctx.tlc_violation(r, "EMStep design")
    items = []
    for V, L, R, PM in ctx.pick([(2, 4, 2, 2)], [(2, 5, 2, 2)]):
        r = tlc.run_tlc("EMStep", dict(V=V, MaxLen=L, R=R, PMax=PM, GUARDED=True, EMIT=True), invariants=["EmitInv"], workers=1,
                        timeout=3000, heap="6g", simulate=None)
        ctx.add_tlc(r, "EMStep.tla emission V=%d L<=%d" % (V, L))
        for p in r.prints:
            items.append(dict(p, V=V, R=R))
    if len(items) < 1000:
        raise MachineryError("EMStep emitted too few instances")
    if len(items) > ctx.pick(6000, 12000):
        ctx.exhaustive = False
        items = rng.sample(items, ctx.pick(6000, 12000))
    ctx.log("EM step instances:", len(items))
    res = pool_map("em", "step", items, min_chunk=300)
    for it, rr in zip(items, res):
        ctx.evaluations += 1
        ctx.traces += 1
        ctx.count("em_step")
        missing = any(v == 0 for row in it["prior"] for blk in row for v in blk)
        if missing and len(it["doc"]) >= 2:
            ctx.nontriv({"d": it["doc"], "p": it["prior"]})
        ident = {"part": "step", "doc": it["doc"], "prior": it["prior"]}
        if rr is None or "crash" in rr or "exc" in rr:
            ctx.violation(dict(ident, kind="crash-or-exception", exc=(rr or {}).get("exc")), {"item": it, "result": rr})
        elif not rr["ok"]:
            ctx.violation(dict(ident, kind="posterior-mismatch"), {"item": it, "result": rr})
    ctx.sample({"part": "step", "doc": items[5]["doc"], "prior_over_4": items[5]["prior"], "expected_posterior_Z_num": items[5]["post"]})


def part_pipeline(ctx):
    """whole pipelines with n_iter / epsilon: recorded matrices decided by Trace_EM.tla"""
    rng = random.Random(ctx.seed + 3)
    jobs = []
    fams = ["token", "token", "token", "timed", "timed", "timed", "multi", "multi", "multi", "ngram"]
    KW = {"flat": [1, 1, 1], "harmonic": [2, 1], "geometric": [4, 2, 1]}
    for k in range(ctx.pick(80, 160)):
        fam = rng.choice(fams)
        V = 3
        nd = rng.randint(1, 3)
        if fam == "multi":
            corpus = [[[rng.randrange(V) for _ in range(rng.randint(1, 2))] for _ in range(rng.randint(1, 4))] for _ in range(nd)]
        else:
            corpus = [[rng.randrange(V) for _ in range(rng.randint(2 if fam == "ngram" else 1, 7))] for _ in range(nd)]
            if fam == "ngram" and not any(len(d) >= 2 for d in corpus):
                continue
        kern = rng.choice(["flat", "flat", "geometric", "harmonic"]) if fam == "token" else rng.choice(["flat", "geometric"]) if fam in ("timed", "multi") else "flat"
        rmax = 2 if (kern == "harmonic" or fam == "multi") else 3
        if rng.random() < 0.5:
            wins = [dict(orient="directional", r=rng.randint(1, rmax), mix=1)]
        else:       # several windows with their own radius, orientation and mix weight
            wins = [dict(orient=rng.choice(["before", "after", "directional"]), r=rng.randint(1, rmax), mix=m)
                    for m in rng.sample([1, 2, 3], 2)]
        jobs.append(dict(family=fam, corpus=corpus, V=V, n_iter=rng.choice([1, 2, 3]), eps=rng.choice([0, 0, 0.05, 0.2, 0.5]),
                         r=max(w["r"] for w in wins), wins=wins, wnorm=rng.random() < 0.7, N=2, kernel=kern,
                         extra=dict(n_threads=rng.choice([1, 2, 3]))))
    res = pool_map("em", "pipeline", jobs, min_chunk=4, timeout=3000)
    recs, owners = [], []
    for j, r in zip(jobs, res):
        ctx.evaluations += 1
        ident = {"part": "pipeline", "family": j["family"], "corpus": j["corpus"], "n_iter": j["n_iter"], "eps": j["eps"], "r": j["r"],
                 "n_threads": j["extra"]["n_threads"]}
        if r is None or "crash" in r or "exc" in r:
            ctx.violation(dict(ident, kind="crash-or-exception", exc=(r or {}).get("exc")), {"job": j, "result": r})
            continue
        if not r["finite"]:
            ctx.violation(dict(ident, kind="non-finite entries"), {"job": j})
            continue
        recs.append({"mats": r["mats"], "eps": int(round(j["eps"] * 10 ** 6))})
        owners.append((j, ident))
    tmp = tempfile.mkdtemp(prefix="verif_tr_")
    try:
        path = os.path.join(tmp, "t.json")
        with open(path, "w") as f:
            json.dump(recs, f)
        r = tlc.run_tlc("Trace_EM", {}, spec="Spec", invariants=["Verdict"], workers=1, env={"TRACE_FILE": path}, timeout=3000, heap="6g")
    finally:
        shutil.rmtree(tmp, ignore_errors=True)
    ctx.add_tlc(r, "Trace_EM on %d recorded pipelines" % len(recs))
    verdicts = {int(p["verdict"]): sorted(p["clauses"]) for p in r.prints if "verdict" in p}
    if len(verdicts) != len(recs):
        raise MachineryError("Trace_EM returned %d verdicts for %d runs\n%s" % (len(verdicts), len(recs), r.raw[-1500:]))
    for t, (j, ident) in enumerate(owners, 1):
        if verdicts[t]:
            ctx.violation(dict(ident, kind="pipeline-invariant", clauses=verdicts[t]), {"job": j, "recorded": recs[t - 1]})
        else:
            ctx.traces += 1
            ctx.count("pipelines_accepted")
            ctx.nontriv(ident)
    if owners:
        ctx.sample({"part": "pipeline", "run": owners[0][1]})
    # the iteration itself: consecutive recorded matrices are related by the documented step (interval arithmetic in TLC)
    chain, cown = [], []
    for j, r in zip(jobs, res):
        if r and "codes" in r and r.get("finite"):
            kwv = ([1, 1, 1, 1] if j["kernel"] == "flat" else [8, 4, 2, 1]) if j["family"] == "multi" else KW[j["kernel"]]
            rec = {"family": j["family"] if j["family"] in ("multi", "ngram") else "token", "V": j["V"],
                   "eps": int(round(j["eps"] * 10 ** 6)), "corpus": j["corpus"], "mats": r["codes"], "N": 2, "grams": [],
                   "wins": [dict(orient=w["orient"], r=w["r"], mix=w["mix"], kw=kwv) for w in j["wins"]]}
            if j["family"] == "ngram":
                rec.update(corpus=r["extra"]["ng_corpus"], grams=r["extra"]["ng_grams"], V=r["extra"]["ng_V"])
            chain.append(rec)
            cown.append(j)
    tmp = tempfile.mkdtemp(prefix="verif_tr_")
    try:
        path = os.path.join(tmp, "t.json")
        with open(path, "w") as f:
            json.dump(chain, f)
        r = tlc.run_tlc("Trace_EMChain", {}, spec="Spec", invariants=["Verdict"], workers=1, env={"TRACE_FILE": path}, timeout=3000, heap="6g")
    finally:
        shutil.rmtree(tmp, ignore_errors=True)
    ctx.add_tlc(r, "Trace_EMChain on %d recorded pipelines (all four families)" % len(chain))
    verdicts = {int(p["verdict"]): p for p in r.prints if "verdict" in p}
    if len(verdicts) != len(chain):
        raise MachineryError("Trace_EMChain returned %d verdicts for %d runs\n%s" % (len(verdicts), len(chain), r.raw[-1500:]))
    widths = []
    for t, j in enumerate(cown, 1):
        v = verdicts[t]
        ctx.evaluations += 1
        widths.append(int(v["width"]))
        if v["bad"]:
            k, a, c, m, lo, hi = [int(x) for x in v["bad"]]
            ctx.violation({"part": "chain", "family": j["family"], "kernel": j["kernel"], "corpus": j["corpus"], "n_iter": j["n_iter"], "eps": j["eps"], "wins": j["wins"],
                           "n_threads": j["extra"]["n_threads"], "kind": "matrix after iteration %d is not the documented step of the matrix before" % k},
                          {"job": j, "recorded": chain[t - 1], "first_bad": {"iteration": k, "row": a, "col": c, "recorded_code": m, "box": [lo, hi]}})
        else:
            ctx.traces += 1
            ctx.count("chains_accepted")
    if widths:
        widths.sort()
        ctx.log("chain box widths (1e-6 units): median %d, 90%% %d, max %d" % (widths[len(widths) // 2], widths[int(len(widths) * 0.9)], widths[-1]))
        ctx.assumptions.append("Trace_EMChain boxes: median width %d, max %d (1e-6 units)" % (widths[len(widths) // 2], widths[-1]))


def part_thresh(ctx):
    """n_iter = 0, epsilon > 0: exact oracle (column-normalise, threshold) from Cooc.tla"""
    from .. import cooc_cfg, cooc_gen
    rng = random.Random(ctx.seed + 5)
    eps = [[1, 10], [1, 4], [1, 3], [1, 2], [1, 1]]
    cfgs = [cooc_cfg.cfg(k, False, [cooc_cfg.win(o, r)]) for k in ("flat", "harmonic", "geometric") for o in ("after", "directional") for r in (1, 2)]
    cfgs += [cooc_cfg.cfg("flat", False, [cooc_cfg.win("before", 2, offset=1, mix=2), cooc_cfg.win("after", 1)])]
    for fam, timed in (("token", False), ("timed", True)):
        use = [c for c in cfgs if not (timed and c["kernel"] == "harmonic")]
        shapes = ctx.pick([(3, 1)], [(4, 1), (2, 2)]) if timed else ctx.pick([(4, 1)], [(5, 1), (3, 2)])
        items = cooc_gen.emit_shapes(ctx, 3 if not timed else 2, shapes, use,
                              "Cooc with epsilon thresholding (%s)" % fam,
                              extra_constants=dict(Eps=eps, TIMED=timed, Gaps=tlc.TLAExpr("{0,1,2}" if timed else "{1}")))
        if len(items) > ctx.pick(700, 4000):
            ctx.exhaustive = False
            items = rng.sample(items, ctx.pick(700, 4000))
        for it in items:
            it["eps"] = eps
            it["family"] = fam
        ctx.log("C11 threshold instances (%s):" % fam, len(items))
        res = pool_map("cooc", "run_thresh", items, min_chunk=150)
        for it, rr in zip(items, res):
            ctx.evaluations += 1
            ctx.traces += 1
            ctx.count("thresh_" + fam)
            if any(len(t) < len(it["cells"]) for t in it["thresh"]):
                ctx.nontriv({"c": it["corpus"], "ci": it["ci"], "f": fam})
            ident = {"part": "thresh", "family": fam, "corpus": it["corpus"], "cfg": cooc_cfg.describe(it["cfg"])}
            if rr is None or "crash" in rr or "exc" in rr:
                ctx.violation(dict(ident, kind="crash-or-exception", exc=(rr or {}).get("exc")), {"item": it, "result": rr})
            elif not rr["ok"]:
                ctx.violation(dict(ident, kind="threshold-mismatch", eps=[f["eps"] for f in rr["fails"]]), {"item": it, "result": rr})
        ctx.sample({"part": "thresh", "corpus": items[0]["corpus"], "cfg": cooc_cfg.describe(items[0]["cfg"]), "eps": eps[1],
                    "expected": items[0]["thresh"][1][:6]})


PARTS = [("step", part_step), ("thresh", part_thresh), ("pipeline", part_pipeline)]


def run(ctx):
    for name, fn in PARTS:
        if ctx.only and name not in ctx.only:
            continue
        ctx.log("part", name)
        fn(ctx)
    ctx.assumptions += ["one EM step is compared exactly (rationals Z -> numerator) for the token vectorizer with a directional flat "
                        "window; whole pipelines (all four vectorizers, n_iter 1..3, epsilon, n_threads) are checked against the "
                        "stated consequences only (range, column sums, epsilon, support monotonicity) because column normalisation of "
                        "rationals with unrelated denominators does not fit 32-bit integers"]
    return ctx.finish(
        level="model_checking",
        rule="step: one case per (document, prior with possibly missing cells) enumerated by TLC from EMStep.tla (algorithm = "
             "declarative step, support, row locality checked by TLC) and replayed through _em_cooccurrence_iteration; pipeline: one "
             "case per recorded run decided by Trace_EM.tla")


def replay(ctx, rep):
    d = rep["detail"]
    res = pool_map("em", "step" if "item" in d else "pipeline", [d.get("item") or d["job"]])
    print(json.dumps(res[0])[:3000])
    return 0
