"""C12 - each output row depends only on its own input item and the fitted model."""
import json
import random

from .. import adapters, protocol
from ..common import pool_map

ROWWISE = ["NgramVectorizer", "SkipgramVectorizer", "LZCompressionVectorizer", "BytePairEncodingVectorizer",
           "HistogramVectorizer", "KDEVectorizer", "DistributionVectorizer", "InformationWeightTransformer",
           "RowDenoisingTransformer", "CountFeatureCompressionTransformer", "SlidingWindowTransformer",
           "SequentialDifferenceTransformer"]


def histories(ctx, rng):
    """fit on one batch, then transforms of singletons, concatenations, permutations, duplicates (TLC-generated)"""
    hs = protocol.generate(ctx, 4, 3, 4, ["fit", "transform"], simulate="num=%d" % ctx.pick(300, 3000), seed=ctx.seed,
                           what="Protocol fit->transform* histories (simulate)")
    hs = [h for h in hs if h[0]["op"] == "fit" and len(h[0]["b"]) >= 2 and all(c["op"] == "transform" for c in h[1:])]
    # make sure the classic shapes are present: whole batch, each singleton, a permutation, a duplicate
    def call(op, b):
        return {"op": op, "b": b, "knob": 0, "expect_ok": True}
    hs.insert(0, [call("fit", [1, 2, 3]), call("transform", [1, 2, 3]), call("transform", [3, 1, 2]), call("transform", [2, 2, 1])])
    hs.insert(1, [call("fit", [1, 2, 3, 4]), call("transform", [4]), call("transform", [1, 2]), call("transform", [3, 4, 1]),
                  # batches that do not fill a whole number of internal blocks / chunks
                  call("transform", [3, 4, 1, 2, 4, 3, 1]), call("transform", [2, 1, 4, 3, 2])])
    return hs


def run(ctx):
    rng = random.Random(ctx.seed)
    want = lambda part: not ctx.only or part in ctx.only     # noqa
    if want("rowwise") or want("pools"):
        hs = histories(ctx, rng)
        jobs = []
        per = ctx.pick(5, 14)
        for name in ROWWISE + sorted(getattr(__import__("harness.adapters_lot", fromlist=["ALL"]), "ROWWISE", [])) \
                if _has_lot() else ROWWISE:
            cls = _all()[name]
            for ci in range(len(cls.configs)):
                pick = hs[:2] + rng.sample(hs[2:], min(len(hs) - 2, per))
                for h in pick:
                    jobs.append(dict(adapter=name, cfg=ci, seed=ctx.seed, history=h))
        ctx.log("C12 histories to replay:", len(jobs))
        if want("rowwise"):
            protocol.run_jobs(ctx, jobs, "rowwise", ignore=("arguments_modified", "constructor_parameter_objects_modified",
                                                            "temporary_files_left_behind", "same_seed_same_model", "fit_returns_self",
                                                            "transform_changed_the_model"),
                              nontrivial=lambda j: len(j["history"]) >= 3)
        if want("pools"):
            pools(ctx, jobs, rng)
    if want("far_batch_mate"):
        far_mate(ctx)
    if want("special"):
        special_batches(ctx)
    ctx.exhaustive = False
    return ctx.finish(
        level="model_checking",
        rule="one case per (estimator, configuration, call history fit(b0); transform(b1); ...) generated from Protocol.tla, "
             "replayed into the real estimator and accepted step by step by Trace_Protocol.tla (memo: the row of an item under "
             "a fitted model is a function of the item); non-trivial = at least two transforms after the fit")


def pools(ctx, jobs, rng):
    """thread-pool sizes: the same histories under NUMBA_NUM_THREADS = 1 and 16 must produce the same row VALUES"""
    import numpy as np
    sub = [dict(j, return_values=True) for j in rng.sample(jobs, min(len(jobs), ctx.pick(60, 600)))]
    sub.sort(key=lambda j: (j["adapter"], j["cfg"]))
    runs = {}
    for nt in ("1", "16"):
        runs[nt] = pool_map("proto", "run_history", sub, env={"NUMBA_NUM_THREADS": nt}, min_chunk=max(3, len(sub) // 12), timeout=3000)
    for j, a, b in zip(sub, runs["1"], runs["16"]):
        ctx.evaluations += 1
        ident = {"part": "thread_pool_size", "adapter": j["adapter"], "cfg": j["cfg"], "history": [[c["op"], c["b"], c["knob"]] for c in j["history"]]}
        if a is None or b is None or "crash" in a or "crash" in b or "exc" in a or "exc" in b:
            ctx.violation(dict(ident, kind="crash-or-exception"), {"job": j, "one_thread": a, "sixteen_threads": b})
            continue
        cls = _all()[j["adapter"]]
        bad = None
        for k, (sa, sb) in enumerate(zip(a["steps"], b["steps"])):
            va, vb = sa["o"].get("vals"), sb["o"].get("vals")
            if (va is None) != (vb is None) or (va is not None and len(va) != len(vb)):
                bad = k
                break
            for x, y in zip(va or [], vb or []):
                if isinstance(x, str) or isinstance(y, str):
                    if x != y:
                        bad = k
                elif len(x) != len(y) or not np.allclose(np.array(x), np.array(y), rtol=max(cls.rtol, 1e-7), atol=max(cls.atol, 1e-9), equal_nan=True):
                    bad = k
            if bad is not None:
                break
        if bad is not None:
            ctx.violation(dict(ident, kind="rows depend on the thread-pool size", step=bad + 1), {"job": j})
        else:
            ctx.traces += 1
            ctx.count("pool_size_pairs_equal")


def far_mate(ctx):
    """an outlier item in the batch (support ~3000 cost units away, a valid distribution) must not change the rows of the others"""
    from .. import adapters_lot

    def call(op, b):
        return {"op": op, "b": b, "knob": 0, "expect_ok": True}
    jobs = []
    for name, cls in sorted(adapters_lot.FAR.items()):
        for ci in range(len(cls.configs)):
            jobs.append(dict(adapter=name, cfg=ci, seed=ctx.seed, history=[call("fit", [1, 2, 3, 4, 5, 6]), call("transform", [1, 2]),
                                                                             call("transform", [1, 2, 9]), call("transform", [2, 1])]))
    protocol.run_jobs(ctx, jobs, "far_batch_mate", min_chunk=2,
                      ignore=("arguments_modified", "constructor_parameter_objects_modified", "temporary_files_left_behind",
                              "same_seed_same_model", "fit_returns_self", "transform_changed_the_model"))


def special_batches(ctx):
    """empty distributions among the items, and batches longer than the minimal internal chunk (256 rows) inside one block"""
    from .. import adapters_lot

    def call(op, b):
        return {"op": op, "b": b, "knob": 0, "expect_ok": True}

    def knob(k):
        return {"op": "knob", "b": [], "knob": k, "expect_ok": True}
    long1 = [1, 2, 3, 4] * 75                 # 300 rows: with memory_size="72k" one block of 288 rows, chunk 256
    long2 = [5, 1, 6] * 86 + [2]              # 259 rows
    jobs = []
    for name, cls in sorted(adapters_lot.SPECIAL.items()):
        for ci in range(len(cls.configs)):
            hs = [[call("fit", [1, 2, 3, 4, 5, 6]), call("transform", [1, 2, 3, 4]), knob(1), call("transform", long1), knob(2),
                   call("transform", [5, 1, 6, 2]), knob(1), call("transform", long2)]]
            if "lil" not in name:
                hs.append([call("fit", [1, 2, 3, 4, 5, 6]), call("transform", [7]), call("transform", [1, 7, 2, 7]), call("transform", [2, 1]),
                           call("transform", [3, 4, 7, 7, 5]), knob(3), call("transform", [1, 7, 2, 7]), call("transform", [4, 7])])
                hs.append([call("fit", [1, 2, 7, 3, 4, 5]), call("transform", [7, 1]), call("transform", [1, 7])])
            for h in hs:
                jobs.append(dict(adapter=name, cfg=ci, seed=ctx.seed, history=h))
    protocol.run_jobs(ctx, jobs, "special_batches", min_chunk=1,
                      ignore=("arguments_modified", "constructor_parameter_objects_modified", "temporary_files_left_behind",
                              "same_seed_same_model", "fit_returns_self", "transform_changed_the_model"))


def _has_lot():
    try:
        import harness.adapters_lot  # noqa
        return True
    except ImportError:
        return False


def _all():
    d = dict(adapters.ALL)
    if _has_lot():
        from .. import adapters_lot
        d.update(adapters_lot.ALL)
    return d


def replay(ctx, rep):
    res = pool_map("proto", "run_history", [rep["detail"]["job"]])
    print(json.dumps(res[0])[:4000])
    return 0
