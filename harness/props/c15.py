"""C15 - labelled-tree co-occurrence counts kernel-weighted walks between labels."""
import itertools
import json
import random
from concurrent.futures import ThreadPoolExecutor

from .. import tlc
from ..common import MachineryError, pool_map

V = 3
LEMMAS = ["ReachPreserved", "Shortened", "PathLemma"]


def forests(n):
    """all parent functions on 1..n with par[v] < v (every rooted forest up to node naming, with nodes in topological order)"""
    return [list(p) for p in itertools.product(*[range(0, v) for v in range(1, n + 1)])]


def instances(ctx, mask_only=False):
    rng = random.Random(ctx.seed + (7 if mask_only else 0))
    out = []
    shapes = [f for n in range(1, ctx.pick(5, 6)) for f in forests(n)]
    target = ctx.pick(600 if not mask_only else 300, 15000 if not mask_only else 5000)
    while len(out) < target:
        ntrees = rng.choice([1, 1, 2])
        trees = []
        for _ in range(ntrees):
            par = rng.choice(shapes)
            if rng.random() < 0.25:
                par = list(range(0, len(par)))           # a path
            trees.append({"par": par, "lab": [rng.randrange(V) for _ in par]})
        excluded = rng.choice([[], [], [0], [1], [2], [0, 1]]) if not mask_only else rng.choice([[0], [1], [2], [0, 1]])
        mask = bool(excluded) and rng.random() < (0.7 if mask_only else 0.4)
        inst = {"trees": trees, "r": rng.randint(1, 3), "kernel": rng.choice(["flat", "harmonic", "geometric"]),
                "orient": rng.choice(["after", "before", "symmetric", "directional"]), "excluded": excluded, "mask": mask,
                "nullify": mask and rng.random() < 0.5}
        r2 = random.Random(rng.random())        # kernel arguments and adjacency dtype (drawn from a side stream)
        if mask and r2.random() < 0.15:         # every node pruned: the vocabulary is the mask alone (index 0)
            for tr in inst["trees"]:
                tr["lab"] = [r2.choice(excluded) for _ in tr["lab"]]
        inst["offset"] = r2.choice([0, 0, 0, 1, 2])
        inst["knorm"] = r2.random() < 0.2
        inst["adj"] = r2.choice(["float", "float", "int", "bool", "float32"])
        inst["fmt"] = r2.choice(["csr", "csr", "lil", "csc", "coo"])
        if inst["offset"] >= inst["r"] and r2.random() < 0.7:
            inst["r"] = min(4, inst["offset"] + r2.choice([1, 2]))
        if all(l in excluded for tr in trees for l in tr["lab"]) and not mask:
            continue          # (with a mask string the vocabulary is then the mask alone - a legal, if poor, model)
        out.append(inst)
    return out


def tla_inst(t):
    d = dict(t)
    d["excluded"] = tlc.TLAExpr("{" + ", ".join(map(str, t["excluded"])) + "}")
    return d


def run_instances(ctx, insts, part):
    shards = 12
    groups = [list(range(i, len(insts), shards)) for i in range(shards)]

    def one(g):
        return g, tlc.run_tlc("Tree", dict(Insts=[tla_inst(insts[i]) for i in g], V=V, EMIT=True), invariants=LEMMAS + ["EmitInv"],
                              workers=1, timeout=3000, heap="4g")
    with ThreadPoolExecutor(max_workers=shards) as ex:
        rs = list(ex.map(one, [g for g in groups if g]))
    items = []
    for g, r in rs:
        ctx.add_tlc(r, "Tree.tla instances")
        ctx.tlc_violation(r, "Tree lemmas")
        for p in r.prints:
            t = insts[g[p["ii"] - 1]]
            items.append(dict(p, inst=t, V=V, path=all(tr["par"] == list(range(len(tr["par"]))) for tr in t["trees"])))
    if len(items) < len(insts) * 0.9:
        raise MachineryError("Tree.tla evaluated %d of %d instances" % (len(items), len(insts)))
    ctx.log(part, "instances:", len(items), "paths:", sum(1 for i in items if i["path"]))
    res = pool_map("tree", "run", items, min_chunk=100)
    for it, r in zip(items, res):
        ctx.evaluations += 1
        ctx.traces += 1
        ctx.count(part)
        t = it["inst"]
        if it["cells"] and (t["excluded"] or len(t["trees"]) > 1 or it["path"]):
            ctx.nontriv(t)
        ident = {"part": part, "inst": t, "orient": t["orient"], "kernel": t["kernel"], "mask": t["mask"], "nullify": t["nullify"],
                 "pruned": bool(t["excluded"])}
        if r is None or "crash" in r or "exc" in r:
            ctx.violation(dict(ident, kind="crash-or-exception", exc=(r or {}).get("exc")), {"item": it, "result": r})
        elif not r["ok"]:
            ctx.violation(dict(ident, kind="mismatch", what=sorted(set(f.get("what") for f in r["fails"]))), {"item": it, "result": r})
    ctx.sample({"part": part, "instance": items[0]["inst"], "expected_cells": items[0]["cells"][:6]})


def run(ctx):
    run_instances(ctx, instances(ctx), "trees")
    ctx.exhaustive = False
    return ctx.finish(
        level="model_checking",
        rule="one case per (forest of <= 2 rooted trees on <= 4-5 nodes incl. paths and isolated nodes, labelling over 3 labels, radius, "
             "kernel, orientation, pruned labels, mask, nullify) whose cells TLC computed from Tree.tla (lemmas ReachPreserved, "
             "Shortened, PathLemma checked on each) and replayed through fit_transform / fit().transform; path graphs additionally "
             "through TokenCooccurrenceVectorizer")


def replay(ctx, rep):
    res = pool_map("tree", "run", [rep["detail"]["item"]])
    print(json.dumps(res[0])[:3000])
    return 0 if res[0].get("ok") else 1
