"""C04 parts d (Chunking), e (pipeline sweeps against Cooc.tla), f2 (periodic corpora at the production threshold)."""
import random

from .. import cooc_cfg, cooc_gen, tlc
from ..common import MachineryError, pool_map


def part_d(ctx):
    r = tlc.run_tlc("Chunking", dict(MaxDocs=ctx.pick(5, 6), MaxSize=3, MaxThreads=ctx.pick(6, 8), EMIT=False),
                    invariants=["Partition", "Covered", "LoopInv"], workers=8, timeout=1800)
    ctx.add_tlc(r, "Chunking exhaustive")
    ctx.tlc_violation(r, "Chunking exhaustive")
    r = tlc.run_tlc("Chunking", dict(MaxDocs=4, MaxSize=3, MaxThreads=5, EMIT=True),
                    invariants=["Partition", "Covered", "EmitInv"], workers=1, timeout=1800)
    ctx.add_tlc(r, "Chunking emit")
    items = list(r.prints)
    if len(items) < 100:
        raise MachineryError("Chunking emitted too few instances")
    rng = random.Random(ctx.seed)
    if ctx.quick and len(items) > 1200:
        items = rng.sample(items, 1200)
    items = [dict(it, family=f) for it in items for f in ("token", "multi")]
    res = pool_map("cooc", "chunks", items, nproc=4, min_chunk=200)
    for it, rr in zip(items, res):
        ctx.evaluations += 1
        ctx.traces += 1
        ctx.count("d_chunking")
        if len(it["chunks"]) > 1:
            ctx.nontriv({"s": it["sizes"], "n": it["n"], "f": it["family"]})
        if rr is None or "crash" in rr or "exc" in rr or not rr["ok"]:
            ctx.violation({"part": "d", "kind": "chunk-boundaries", "sizes": it["sizes"], "n": it["n"],
                           "family": it["family"]}, {"item": it, "result": rr})
    ctx.sample({"part": "d", "sizes": items[7]["sizes"], "n_threads": items[7]["n"], "chunks": items[7]["chunks"]})


SETTINGS_Q = [dict(n_threads=1, coo_initial_memory="1k"), dict(n_threads=2, coo_initial_memory="1k"),
              dict(n_threads=3, coo_initial_memory="4k"), dict(n_threads=5, coo_initial_memory="1M"),
              dict(n_threads=16, coo_initial_memory="1k")]
SETTINGS_T = SETTINGS_Q + [dict(n_threads=2, coo_initial_memory="4k"), dict(n_threads=3, coo_initial_memory="1k"),
                           dict(n_threads=7, coo_initial_memory="2k"), dict(n_threads=1, coo_initial_memory="1G")]


def _corpora(ctx, fam, n):
    """instances beyond the exhaustive bounds of C03: TLC -simulate walks (V=3..4, several documents)"""
    seed = ctx.seed * 7 + len(fam)
    if fam == "token":
        cfgs = cooc_cfg.wide_cfgs(4, seed, 6) + cooc_cfg.quick_cfgs()[::6]
        return cooc_gen.emit(ctx, 4, 8, 3, cfgs, "Cooc simulate V=4", simulate="num=%d" % n, depth=30, seed=seed, shards=4)
    if fam == "timed":
        cfgs = cooc_cfg.timed_cfgs(3, seed, 8)
        return cooc_gen.emit(ctx, 3, 7, 3, cfgs, "Cooc timed simulate V=3", simulate="num=%d" % n, depth=26, seed=seed,
                             shards=4, extra_constants=dict(TIMED=True, Gaps=tlc.TLAExpr("{0,1,3}")))
    if fam == "multi":
        cfgs = cooc_cfg.multi_cfgs(3, seed, 10)
        return cooc_gen.emit(ctx, 3, 1, 1, cfgs, "CoocMulti simulate V=3", module="CoocMulti", simulate="num=%d" % n,
                             depth=26, seed=seed, shards=4,
                             invariants=["Refines", "WindowMassOne"],
                             extra_constants=dict(MaxSet=3, MaxSets=4, MaxDocs=3))
    cfgs = [c for c in cooc_cfg.wide_cfgs(3, seed, 30) if not any(w["table"] for w in c["wins"])][:6]
    items = cooc_gen.emit(ctx, 3, 7, 2, cfgs, "CoocNgram simulate V=3", module="CoocNgram", simulate="num=%d" % n,
                          depth=20, seed=seed, shards=4, invariants=["Refines", "WindowMassOne"],
                          extra_constants=dict(N=2, MaxLen=7, MaxDocs=2))
    for it in items:
        it["N"] = 2
    return items


def part_e(ctx):
    rng = random.Random(ctx.seed + 31)
    settings = ctx.pick(SETTINGS_Q, SETTINGS_T)
    per_fam = ctx.pick({"token": 40, "timed": 24, "multi": 24, "ngram": 8}, {"token": 300, "timed": 150, "multi": 150, "ngram": 40})
    jobs = []
    for fam, n in per_fam.items():
        insts = _corpora(ctx, fam, max(20, n // 4))
        # de-duplicate and keep the heavier ones (more events -> more buffer traffic)
        seen, uniq = set(), []
        for it in sorted(insts, key=lambda i: -len(i["cells"])):
            k = (str(it["corpus"]), it["ci"], str(it.get("times")))
            if k not in seen:
                seen.add(k)
                uniq.append(it)
        uniq = uniq[: n]
        ctx.log("pipeline corpora", fam, len(uniq))
        for it in uniq:
            it["family"] = fam
            for st in settings:
                jobs.append(dict(it, extra=st, modes=["ft", "small_t"] if fam != "ngram" else ["ft"]))
    ctx.exhaustive = False
    for limit in ctx.pick([4, 64, None], [3, 4, 16, 64, None]):
        env = {"VECTORIZERS_VERIF": "1", "VECTORIZERS_VERIF_COO_LIMIT": limit} if limit else {"VECTORIZERS_VERIF": "0"}
        env["NUMBA_NUM_THREADS"] = rng.choice(["1", "4", "16"])
        sub = jobs if not ctx.quick else rng.sample(jobs, min(len(jobs), 260))
        res = pool_map("cooc", "run", sub, env=env, min_chunk=6, timeout=3000)
        nbad = 0
        for it, r in zip(sub, res):
            ctx.evaluations += 1
            ctx.traces += 1
            ctx.count("e_pipeline_runs")
            ctx.nontriv({"c": it["corpus"], "ci": it["ci"], "x": it["extra"], "l": limit, "f": it["family"]})
            ident = {"part": "e", "family": it["family"], "limit": limit, "setting": it["extra"],
                     "cfg": cooc_cfg.describe(it["cfg"]), "corpus": it["corpus"]}
            if r is None or "crash" in r:
                nbad += ctx.violation(dict(ident, kind="abnormal-termination"), {"item": it, "result": r})
            elif "exc" in r:
                nbad += ctx.violation(dict(ident, kind="exception", exc=r["exc"]), {"item": it, "result": r})
            elif not r["ok"]:
                nbad += ctx.violation(dict(ident, kind="mismatch", modes=[f.get("mode") for f in r["fails"]]),
                                      {"item": it, "result": r})
        ctx.log("pipeline sweep LIMIT=%s runs=%d bad=%d" % (limit, len(sub), nbad))
    if jobs:
        j = jobs[len(jobs) // 2]
        ctx.sample({"part": "e", "family": j["family"], "corpus": j["corpus"], "setting": j["extra"],
                    "cfg": cooc_cfg.describe(j["cfg"])})


def part_f(ctx):
    """production thresholds (no hook): periodic corpora, millions of events, oracle = closed form checked by TLC"""
    big = ctx.pick([dict(L=300000, V=5, R=5, D=2), dict(L=140000, V=30000, R=3, D=1)],
                   [dict(L=400000, V=5, R=5, D=3), dict(L=300000, V=40000, R=4, D=1), dict(L=250000, V=1000, R=5, D=2),
                    dict(L=200000, V=70000, R=2, D=2)])
    r = tlc.run_tlc("CoocAtScale", dict(MaxL=ctx.pick(12, 16), MaxV=4, MaxR=4, Big=big),
                    invariants=["ClosedFormOK", "TotalOK", "EmitBig"], workers=1, timeout=3000, heap="8g")
    ctx.add_tlc(r, "CoocAtScale closed form = brute force")
    if ctx.tlc_violation(r, "CoocAtScale"):
        return
    if len(r.prints) != len(big):
        raise MachineryError("CoocAtScale did not emit the big instances")
    jobs = []
    for p in r.prints:
        for mem, nt in ctx.pick([("1M", 1), ("4M", 2)], [("1M", 1), ("4M", 2), ("1G", 1), ("2M", 3)]):
            jobs.append(dict(p, mem=mem, nt=nt))
    res = pool_map("cooc", "scale", jobs, env={"VECTORIZERS_VERIF": "0"}, min_chunk=1, timeout=3000)
    for j, rr in zip(jobs, res):
        ctx.evaluations += 1
        ctx.traces += 1
        ctx.count("f_scale_runs")
        small = {k: j[k] for k in ("l", "v", "r", "d", "mem", "nt", "events")}
        if rr is None or "crash" in rr or "exc" in rr or not rr.get("ok"):
            ctx.violation({"part": "f", "kind": "scale-mismatch", "run": small},
                          {"run": small, "result": rr if rr is None else {k: v for k, v in rr.items()}})
        else:
            if rr["limit"] != 65536:
                raise MachineryError("scale run did not use the production threshold")
            ctx.nontriv(small)
            ctx.sample({"part": "f", "run": small, "cells_checked": rr["cells_checked"], "coo_sizes": rr["coo_sizes"]}, limit=6)


def part_s(ctx):
    """schedules: every interleaving of workers over chunks ends in the same accumulator (Prange.tla, with liveness)"""
    for nc, nw, contrib in [(4, 3, [[1, 0, 2], [0, 3, 1], [2, 2, 0], [1, 1, 1]]), (5, 2, [[1, 2], [3, 0], [0, 0], [2, 2], [1, 5]]),
                            (3, 4, [[1], [2], [3]])][: ctx.pick(2, 3)]:
        r = tlc.run_tlc("Prange", dict(NChunks=nc, NWorkers=nw, Contribution=contrib), spec="Spec",
                        invariants=["Conservation", "Exclusive", "ScheduleIndependent"], properties=["Terminates"], workers=4, timeout=1800)
        ctx.add_tlc(r, "Prange.tla %d chunks x %d workers (all interleavings)" % (nc, nw))
        ctx.tlc_violation(r, "Prange schedules")


PARTS = [("d", part_d), ("s", part_s), ("e", part_e), ("f", part_f)]
