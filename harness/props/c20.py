"""C20 - histogram rows conserve the events; KDE rows depend only on the value multiset."""
import itertools
import json
import random
from concurrent.futures import ThreadPoolExecutor

from .. import tlc
from ..common import MachineryError, pool_map

NEG, POS = -1000000, 1000000


def instances(ctx):
    rng = random.Random(ctx.seed)
    out = []
    nmax = ctx.n(ctx.pick(700, 8000))
    while len(out) < nmax:
        n = rng.choice([2, 3, 4])
        strategy = rng.choice(["uniform", "uniform", "quantile"])
        k = rng.randint(2, 6)
        if strategy == "uniform":
            vals = [n * rng.randint(-3, 6) for _ in range(k)]
        else:
            vals = [rng.randint(0, 9) for _ in range(k)]
        cut = sorted(rng.sample(range(1, k), rng.randint(0, min(2, k - 1)))) if k > 1 else []
        train = [vals[a:b] for a, b in zip([0] + cut, cut + [k])]
        mn, mx = min(vals), max(vals)
        lo = rng.choice([NEG, NEG, mn - 1, mn - n, mn, mn + 1])
        hi = rng.choice([POS, POS, mx + 1, mx + n, mx, mx - 1])
        if lo >= hi:
            continue
        cand = sorted(set([mn, mx, mn - 1, mx + 1, mn - 50, mx + 50, lo, hi, lo + 1, hi - 1] + vals + [rng.randint(mn - 3, mx + 3) for _ in range(4)]))
        cand = [c for c in cand if NEG < c < POS]
        test = [[rng.choice(cand) for _ in range(rng.randint(0, 5))] for _ in range(rng.randint(1, 3))]
        out.append(dict(train=train, n=n, strategy=strategy, lo=lo, hi=hi, outlier=rng.random() < 0.5, test=test))
    return out


def part_hist(ctx):
    insts = instances(ctx)
    shards = 10
    groups = [list(range(i, len(insts), shards)) for i in range(shards)]

    def one(g):
        return g, tlc.run_tlc("Histogram", dict(Insts=[insts[i] for i in g], EMIT=True),
                              invariants=["Partition", "Conservation", "EmitInv"], workers=1, timeout=3000)
    with ThreadPoolExecutor(max_workers=shards) as ex:
        rs = list(ex.map(one, groups))
    items = []
    for g, r in rs:
        ctx.add_tlc(r, "Histogram instances")
        ctx.tlc_violation(r, "Histogram")
        for p in r.prints:
            items.append(dict(p, inst=insts[g[p["ii"] - 1]]))
    if len(items) < 100:
        raise MachineryError("Histogram: too few valid instances (%d of %d)" % (len(items), len(insts)))
    ctx.log("histogram instances", len(items), "valid of", len(insts))
    res = pool_map("hist", "run", items, min_chunk=40)
    for it, r in zip(items, res):
        ctx.evaluations += 1
        ctx.traces += 1
        ctx.count("histogram")
        t = it["inst"]
        if any(sum(row) != len(s) for row, s in zip(it["rows"], t["test"])) or t["outlier"]:
            ctx.nontriv(t)
        ident = {"part": "histogram", "inst": t, "strategy": t["strategy"], "outlier": t["outlier"],
                 "finite_range": [t["lo"] != NEG, t["hi"] != POS]}
        if r is None or "crash" in r or "exc" in r:
            ctx.violation(dict(ident, kind="crash-or-exception", exc=(r or {}).get("exc")), {"item": it, "result": r})
        elif not r["ok"]:
            ctx.violation(dict(ident, kind="mismatch", what=sorted(set(f.get("what") for f in r["fails"]))), {"item": it, "result": r})
    ctx.sample({"instance": items[0]["inst"], "expected_bins": items[0]["bins"], "expected_rows": items[0]["rows"]})
    ctx.exhaustive = False


PARTS = [("hist", part_hist)]


def run(ctx):
    from . import c20_kde
    for name, fn in PARTS + c20_kde.PARTS:
        if ctx.only and name not in ctx.only:
            continue
        ctx.log("part", name)
        fn(ctx)
    return ctx.finish(
        level="model_checking",
        rule="histogram: one case per (training sequences, n_components, strategy, absolute_range, outlier bins, transform "
             "sequences) instance whose bins and rows TLC computed from Histogram.tla (Partition and Conservation checked on "
             "each); non-trivial = some transform value lies outside the absolute range or outlier bins are on. KDE: one case "
             "per recorded call history accepted by Trace_Protocol.tla")


def replay(ctx, rep):
    res = pool_map("hist", "run", [rep["detail"]["item"]])
    print(json.dumps(res[0])[:3000])
    return 0 if res[0].get("ok") else 1
