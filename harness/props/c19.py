"""C19 - sliding windows contain exactly the documented in-range elements."""
import json
from concurrent.futures import ThreadPoolExecutor

from .. import sw_cfg, tlc
from ..common import MachineryError, pool_map

INVS = ["InRange", "LastFits", "SeqDiffOK"]


def run(ctx):
    both = sw_cfg.instances(ctx.tier, ctx.seed)
    # (1) the whole enumerated space: invariants only
    allx = both["all"]
    sh = 12
    grp = [allx[i::sh] for i in range(sh)]
    with ThreadPoolExecutor(max_workers=sh) as ex:
        for r in ex.map(lambda g: tlc.run_tlc("SlidingWindow", dict(Insts=[sw_cfg.tla_inst(x) for x in g], EMIT=False),
                                              invariants=INVS, workers=1, timeout=3000), grp):
            ctx.add_tlc(r, "SlidingWindow invariants on the enumerated space")
            ctx.tlc_violation(r, "SlidingWindow invariants")
    ctx.parts["instances_model_checked"] = len(allx)
    # (2) the replayed sample: expected windows emitted
    insts = both["replay"]
    shards = 12
    groups = [list(range(i, len(insts), shards)) for i in range(shards)]

    def one(g):
        return g, tlc.run_tlc("SlidingWindow", dict(Insts=[sw_cfg.tla_inst(insts[i]) for i in g], EMIT=True),
                              invariants=INVS + ["EmitInv"], workers=1, timeout=3000)
    with ThreadPoolExecutor(max_workers=shards) as ex:
        rs = list(ex.map(one, groups))
    items = []
    for g, r in rs:
        ctx.add_tlc(r, "SlidingWindow instances")
        ctx.tlc_violation(r, "SlidingWindow")
        for p in r.prints:
            items.append(dict(p, inst=insts[g[p["ii"] - 1]]))
    if len(items) < 300:
        raise MachineryError("SlidingWindow emitted too few instances (%d of %d)" % (len(items), len(insts)))
    ctx.log("sliding-window instances", len(items), "of", len(insts))
    res = pool_map("sw", "run", items, min_chunk=10)
    for it, r in zip(items, res):
        ctx.evaluations += 1
        ctx.traces += 1
        x = it["inst"]
        if it["n"] > 1 and (x["sample"][0] != "none" or x["kernel"][0] != "id" or x["pad"] > 0):
            ctx.nontriv(x)
        ident = {"inst": x, "sample_form": x["sample"][0], "kernel": x["kernel"][0], "D": x["D"], "seqdiff": bool(x.get("seqdiff"))}
        if r is None or "crash" in r or "exc" in r:
            ctx.violation(dict(ident, kind="crash-or-exception", exc=(r or {}).get("exc")), {"item": it, "result": r})
        elif not r["ok"]:
            ctx.violation(dict(ident, kind="mismatch", what=sorted(set(f.get("what") for f in r["fails"]))), {"item": it, "result": r})
    ctx.sample({"instance": items[len(items) // 2]["inst"], "expected_windows": items[len(items) // 2]["windows"][:3]})
    ctx.exhaustive = False
    return ctx.finish(
        level="model_checking",
        rule="one case per instance (L, D, width, stride, pad, sample form, kernel) evaluated by TLC from SlidingWindow.tla and "
             "replayed through SlidingWindowTransformer (arrays and lists) and SequentialDifferenceTransformer; non-trivial = "
             "more than one window and a sample / kernel / padding other than the default")


def replay(ctx, rep):
    res = pool_map("sw", "run", [rep["detail"]["item"]])
    print(json.dumps(res[0])[:3000])
    return 0 if res[0].get("ok") else 1
