"""Estimator adapters for the Protocol engine: for each estimator kind a pool of items, how a batch of item ids
becomes a call argument, how an output becomes rows, configurations, and 'knobs' that must not matter."""
import numpy as np
import scipy.sparse as sp

ROW, WHOLE = "row", "whole"     # row-wise estimators / matrix-valued estimators (one item = one whole input)


class Adapter:
    name = "?"
    kind = ROW
    heavy = False            # needs the full package import (pynndescent)
    seedable = False
    rtol, atol = 1e-7, 1e-9
    knobs = []               # list of dicts of attribute settings applied with set_params
    transform_kwargs = True

    def __init__(self, cfg, seed):
        self.cfg, self.seed = dict(cfg), seed
        self.rng = np.random.RandomState(seed)
        self.pool = self.make_pool()

    # -- to override
    configs = [{}]

    def make(self):
        raise NotImplementedError

    def make_pool(self):
        raise NotImplementedError

    def batch(self, ids):
        """-> (X, kwargs) for item ids (1-based)"""
        return [self.pool[i - 1] for i in ids], {}

    def rows(self, out, n):
        if sp.issparse(out):
            out = out.tocsr()
            return [out[i] for i in range(out.shape[0])]
        return list(out)

    def width(self, out):
        if hasattr(out, "shape") and len(out.shape) == 2:
            return int(out.shape[1])
        return -1

    def nrows(self, out):
        return out.shape[0] if hasattr(out, "shape") else len(out)


def _cls(path, name):
    import importlib
    return getattr(importlib.import_module(path), name)


def user_objects(ad, cfg):
    """fresh copies of the mutable constructor arguments (what a user would pass), remembered for the side-effect snapshot"""
    out = {}
    for k, v in cfg.items():
        if isinstance(v, (set, dict, list)) and not k.startswith("_"):
            out[k] = type(v)(v)
    ad.param_objects = dict(getattr(ad, "param_objects", {}) or {}, **out)
    return dict(cfg, **out)


# item 4 is the EMPTY document (generated histories range over items 1..4)
DOCS = [["a", "b", "a", "c"], ["b", "b", "c"], ["c", "a"], [], ["d", "a", "b", "a", "b"], ["a"]]


class Ngram(Adapter):
    name = "NgramVectorizer"
    configs = [dict(), dict(ngram_size=2), dict(ngram_size=2, ngram_behaviour="subgrams"), dict(min_occurrences=2),
               dict(ngram_size=2, mask_string="[M]", excluded_tokens={"b"}), dict(ngram_size=3, max_unique_tokens=4),
               dict(excluded_tokens={"d"}, excluded_token_regex="c"), dict(ngram_size=2, excluded_tokens={"c"}, excluded_token_regex="d"),
               dict(ngram_size=3, ngram_behaviour="subgrams"), dict(ngram_size=4, ngram_behaviour="subgrams")]

    def make(self):
        return _cls("vectorizers.ngram_vectorizer", "NgramVectorizer")(**user_objects(self, self.cfg))

    def make_pool(self):
        return DOCS[:5]

    def batch(self, ids, fitting=False):
        # a fit batch made of the empty document only (or too poor for the pruning bounds) is a documented non-fit:
        # fit batches are padded deterministically with the two long documents (rows of the requested items are kept)
        docs = [self.pool[i - 1] for i in ids]
        return (docs + [DOCS[0], DOCS[4]] if fitting else docs), {}


class Skipgram(Adapter):
    name = "SkipgramVectorizer"
    configs = [dict(window_radius=2), dict(window_radius=1, kernel_function="harmonic"), dict(window_radius=3, min_occurrences=2),
               dict(window_radius=2, ignored_tokens={"d"}, excluded_token_regex="c")]

    def make(self):
        return _cls("vectorizers.skip_gram_vectorizer", "SkipgramVectorizer")(**user_objects(self, self.cfg))

    def make_pool(self):
        return DOCS[:5]

    batch = Ngram.batch


STRINGS = ["abababab", "aaaa", "abcabcabc", "ba", "", "a", "cabbage", "ababé中ab"]


class LZ(Adapter):
    name = "LZCompressionVectorizer"
    seedable = True
    configs = [dict(), dict(max_dict_size=3), dict(max_columns=4), dict(max_columns=2, max_dict_size=5),
               dict(base_dictionary={"a": 1, "b": 1}, max_columns=None), dict(max_columns=None)]

    def make(self):
        return _cls("vectorizers.mixed_gram_vectorizer", "LZCompressionVectorizer")(random_state=self.seed % 1000, **self.cfg)

    def make_pool(self):
        return STRINGS[:6]


class BPE(Adapter):
    name = "BytePairEncodingVectorizer"
    configs = [dict(return_type="matrix", max_vocab_size=6), dict(return_type="sequences", max_vocab_size=6),
               dict(return_type="tokens", max_vocab_size=4), dict(return_type="matrix", max_vocab_size=3, min_token_occurrence=2),
               dict(return_type="sequences", max_vocab_size=8, max_char_code=127)]

    def make(self):
        return _cls("vectorizers.mixed_gram_vectorizer", "BytePairEncodingVectorizer")(**self.cfg)

    def make_pool(self):
        return ["abababab", "abcabcabc", "aaaa", "cabbage abab", "ab", "babab"]

    def width(self, out):
        return int(out.shape[1]) if hasattr(out, "shape") and len(out.shape) == 2 else -1


SEQS = [[1.0, 5.0, 2.0, 7.5], [2.0, 2.0, 9.0], [0.5, 3.0, 3.0, 4.0, 8.0], [7.5, 2.0, 5.0, 1.0], [6.0], [9.0, 2.0, 2.0]]


class Histogram(Adapter):
    name = "HistogramVectorizer"
    configs = [dict(n_components=4), dict(n_components=3, append_outlier_bins=True, absolute_range=(0.0, 20.0)),
               dict(n_components=3, strategy="quantile")]

    def make(self):
        return _cls("vectorizers._vectorizers", "HistogramVectorizer")(**self.cfg)

    def make_pool(self):
        pool = [list(s) for s in SEQS]
        pool[3] = []                 # item 4: an empty sequence (a zero row)
        return pool

    def batch(self, ids, fitting=False):
        seqs = [self.pool[i - 1] for i in ids]
        return (seqs + [list(SEQS[0]), list(SEQS[1])] if fitting else seqs), {}


SEQS2 = [[1.0, 5.0, 2.0, 7.5], [2.0, 2.5, 9.0], [0.5, 3.0, 3.5, 4.0, 8.0], [7.5, 2.0, 5.0, 1.0], [6.0, 1.5, 3.0], [9.0, 2.0, 2.5]]


class KDE(Adapter):
    """items 1 and 4 are permutations of one another, items 2 and 6 as well (same bag of values)"""
    name = "KDEVectorizer"
    rtol, atol = 1e-9, 1e-12
    configs = [dict(n_components=8), dict(n_components=5, bandwidth=0.7), dict(n_components=6, evaluation_grid_strategy="density"),
               dict(n_components=6, kernel="tophat", bandwidth=1.5)]
    same_bag = [(1, 4), (2, 6)]

    def make(self):
        return _cls("vectorizers.kde_vectorizer", "KDEVectorizer")(**self.cfg)

    def make_pool(self):
        return [np.array(s) for s in SEQS2]


class Distribution(Adapter):
    name = "DistributionVectorizer"
    seedable = True
    rtol, atol = 1e-6, 1e-9
    configs = [dict(n_components=2), dict(n_components=3)]

    def make(self):
        return _cls("vectorizers._vectorizers", "DistributionVectorizer")(random_state=self.seed % 1000, **self.cfg)

    def make_pool(self):
        r = np.random.RandomState(7)
        return [r.normal(size=(k, 2)) + off for k, off in ((6, 0), (4, 3), (5, -2), (7, 1), (3, 0), (8, 2))]


def _count_matrix(seed=3, n=8, m=6):
    r = np.random.RandomState(seed)
    M = r.poisson(1.2, size=(n, m)).astype(np.float64)
    M[0, :] = 0
    M[:, 4] = 0
    M[1, 2] = 5
    return M


class MatrixRows(Adapter):
    """estimators taking a count matrix: a batch is the matrix made of the pooled rows (CSR)"""
    fmt = "csr"
    min_fit = 0

    def make_pool(self):
        M = _count_matrix()
        return [M[i] for i in range(M.shape[0])]

    def batch(self, ids, fitting=False):
        if fitting and len(ids) < self.min_fit:     # a deterministic function of ids: pad with the rest of the pool
            ids = list(ids) + [k for k in range(1, len(self.pool) + 1) if k not in ids][: self.min_fit - len(ids)]
        M = np.vstack([self.pool[i - 1] for i in ids])
        if fitting and not M.any():          # an all-zero training matrix is a documented non-fit: add a non-empty row
            ids = list(ids) + [2]
            M = np.vstack([self.pool[i - 1] for i in ids])
        fmt = self.cfg.get("_fmt", self.fmt)
        if fmt == "csr":
            return sp.csr_matrix(M), {}
        if fmt == "csc_messy":
            # a valid but inconvenient encoding: CSC, unsorted indices inside columns, explicit zeros stored
            C = sp.csc_matrix(M)
            C.data = C.data.copy()
            for j in range(C.shape[1]):
                a, b = C.indptr[j], C.indptr[j + 1]
                C.indices[a:b] = C.indices[a:b][::-1].copy()
                C.data[a:b] = C.data[a:b][::-1].copy()
            C.has_sorted_indices = False
            coo = C.tocoo()
            zr = [(i, j) for i in range(M.shape[0]) for j in range(M.shape[1]) if M[i, j] == 0][:3]
            rows = np.concatenate([coo.row, [z[0] for z in zr]]).astype(np.int32)
            cols = np.concatenate([coo.col, [z[1] for z in zr]]).astype(np.int32)
            vals = np.concatenate([coo.data, np.zeros(len(zr))])
            order = np.argsort(cols, kind="stable")[::-1]
            order = order[np.argsort(cols[order], kind="stable")]
            C2 = sp.csc_matrix((vals[order], rows[order], np.concatenate([[0], np.cumsum(np.bincount(cols, minlength=M.shape[1]))])),
                               shape=M.shape)
            C2.has_sorted_indices = False
            return C2, {}
        return M, {}


class InfoWeight(MatrixRows):
    name = "InformationWeightTransformer"
    min_fit = 3
    configs = [dict(), dict(approx_prior=False), dict(weight_power=1.0, prior_strength=0.5), dict(_fmt="csc_messy"),
               dict(_fmt="dense")]

    def make(self):
        return _cls("vectorizers.transformers.info_weight", "InformationWeightTransformer")(
            **{k: v for k, v in self.cfg.items() if not k.startswith("_")})


class RowDenoise(MatrixRows):
    name = "RowDenoisingTransformer"
    min_fit = 3
    rtol, atol = 1e-6, 1e-9
    configs = [dict(), dict(normalize=True), dict(em_background_prior=5.0, em_prior_strength=0.3), dict(_fmt="csc_messy")]

    def make(self):
        return _cls("vectorizers.transformers.row_desnoise", "RowDenoisingTransformer")(
            **{k: v for k, v in self.cfg.items() if not k.startswith("_")})


class CountCompress(MatrixRows):
    name = "CountFeatureCompressionTransformer"
    seedable = True
    min_fit = 6
    rtol, atol = 1e-6, 1e-8
    configs = [dict(n_components=2, algorithm="arpack"), dict(n_components=3, algorithm="randomized")]

    def make(self):
        return _cls("vectorizers.transformers.count_feature_compression", "CountFeatureCompressionTransformer")(
            random_state=self.seed % 1000, **self.cfg)


class SlidingWindow(Adapter):
    name = "SlidingWindowTransformer"
    configs = [dict(window_width=2), dict(window_width=3, window_stride=2, kernels=[("differences", 0, 1, 1)]),
               dict(window_width=3, window_sample=(0, 2), pad_width=1)]

    def make(self):
        return _cls("vectorizers.transformers.sliding_windows", "SlidingWindowTransformer")(**self.cfg)

    def make_pool(self):
        return [np.arange(5.0) ** 2, np.array([3.0, 1.0, 4.0, 1.0, 5.0, 9.0]), np.array([2.0, 7.0, 1.0, 8.0]),
                np.array([1.0, 1.0, 2.0, 3.0, 5.0]), np.arange(7.0), np.array([9.0, 8.0, 7.0, 6.0])]

    def width(self, out):
        return -1


class SeqDiff(SlidingWindow):
    name = "SequentialDifferenceTransformer"
    configs = [dict(stride=1), dict(stride=2)]

    def make(self):
        return _cls("vectorizers.transformers.sliding_windows", "SequentialDifferenceTransformer")(**self.cfg)


CORPORA = [[["a", "b", "a", "c", "b"], ["c", "a", "b"]], [["b", "b", "a"], ["a", "c", "c", "a"], ["b"]],
           [["a", "b", "c", "a", "b", "c", "a"]], [["c", "b", "a"], ["a", "a"]]]


class Whole(Adapter):
    """matrix-valued estimators: one item = one whole corpus / edge list; the 'row' is the whole output"""
    kind = WHOLE

    def batch(self, ids):
        return self.pool[ids[0] - 1], {}

    def rows(self, out, n):
        return [out if not sp.issparse(out) else np.asarray(out.todense())]

    def nrows(self, out):
        return 1

    def width(self, out):
        return int(out.shape[1]) if hasattr(out, "shape") and len(out.shape) == 2 else -1


class TokenCooc(Whole):
    name = "TokenCooccurrenceVectorizer"
    rtol, atol = 1e-6, 1e-8
    knobs = [dict(n_threads=1), dict(n_threads=3), dict(coo_initial_bytes=1024)]
    configs = [dict(window_radii=2, token_dictionary={"a": 0, "b": 1, "c": 2}),
               dict(window_radii=2, n_iter=1, token_dictionary={"a": 0, "b": 1, "c": 2}),
               dict(window_radii=[1, 2], window_orientations=["before", "after"], kernel_functions=["harmonic", "harmonic"],
                    window_functions=["fixed", "fixed"], token_dictionary={"a": 0, "b": 1, "c": 2}),
               dict(window_radii=2, token_dictionary={"a": 0, "b": 1, "c": 2}, mask_string="[M]", nullify_mask=True),
               dict(window_radii=2, n_iter=2, epsilon=0.05, n_threads=2, token_dictionary={"a": 0, "b": 1, "c": 2}),
               dict(window_radii=2, window_functions="variable", token_dictionary={"a": 0, "b": 1, "c": 2}),
               dict(window_radii=2, excluded_tokens={"c"}, excluded_token_regex="b"),
               dict(window_radii=1, excluded_tokens={"c"}, excluded_token_regex="b", mask_string="[M]")]

    def make(self):
        cfg = user_objects(self, self.cfg)
        return _cls("vectorizers.token_cooccurrence_vectorizer", "TokenCooccurrenceVectorizer")(**cfg)

    def make_pool(self):
        return CORPORA


class TimedCooc(TokenCooc):
    name = "TimedTokenCooccurrenceVectorizer"
    configs = [dict(window_radii=2, token_dictionary={"a": 0, "b": 1, "c": 2}),
               dict(window_radii=2, kernel_functions="geometric", n_iter=1, token_dictionary={"a": 0, "b": 1, "c": 2})]

    def make(self):
        cfg = dict(self.cfg)
        cfg["token_dictionary"] = dict(cfg["token_dictionary"])
        self.param_objects = {"token_dictionary": cfg["token_dictionary"]}
        return _cls("vectorizers.timed_token_cooccurrence_vectorizer", "TimedTokenCooccurrenceVectorizer")(**cfg)

    def make_pool(self):
        return [[[(t, float(3 * i + (i % 2))) for i, t in enumerate(d)] for d in c] for c in CORPORA]


class MultiCooc(TokenCooc):
    name = "MultiSetCooccurrenceVectorizer"
    configs = [dict(window_radii=1, token_dictionary={"a": 0, "b": 1, "c": 2}),
               dict(window_radii=2, kernel_functions="geometric", n_iter=1, token_dictionary={"a": 0, "b": 1, "c": 2})]

    def make(self):
        cfg = dict(self.cfg)
        cfg["token_dictionary"] = dict(cfg["token_dictionary"])
        self.param_objects = {"token_dictionary": cfg["token_dictionary"]}
        return _cls("vectorizers.multi_token_cooccurence_vectorizer", "MultiSetCooccurrenceVectorizer")(**cfg)

    def make_pool(self):
        return [[[d[i:i + 2] for i in range(0, len(d), 2)] for d in c] for c in CORPORA]


class NgramCooc(TokenCooc):
    name = "NgramCooccurrenceVectorizer"
    configs = [dict(window_radii=2, ngram_size=2), dict(window_radii=1, ngram_size=2, n_iter=1)]
    knobs = [dict(n_threads=1), dict(n_threads=2)]

    def make(self):
        return _cls("vectorizers.ngram_token_cooccurence_vectorizer", "NgramCooccurrenceVectorizer")(**self.cfg)


class EdgeList(Whole):
    name = "EdgeListVectorizer"
    configs = [dict(), dict(joint_space=True), dict(row_label_dictionary={"r1": 0, "r2": 1, "r9": 2})]

    def make(self):
        cfg = dict(self.cfg)
        if "row_label_dictionary" in cfg:
            cfg["row_label_dictionary"] = dict(cfg["row_label_dictionary"])
        return _cls("vectorizers.edge_list_vectorizer", "EdgeListVectorizer")(**cfg)

    def make_pool(self):
        return [[("r1", "c1", 2), ("r2", "c2", 1), ("r1", "c1", 3), ("r3", "c1", -1)],
                [("r2", "c1", 1), ("r1", "c3", 4)], [("r3", "c2", 2)], [("r1", "c1", 1), ("r2", "c2", 1), ("r3", "c3", 1)]]


class TreeCooc(Whole):
    name = "LabelledTreeCooccurrenceVectorizer"
    rtol, atol = 1e-6, 1e-8
    configs = [dict(window_radius=2), dict(window_radius=2, window_orientation="symmetric", kernel_function="harmonic"),
               dict(window_radius=1, mask_string="[M]", nullify_mask=True, ignored_tokens={"b"}),
               dict(window_radius=2, ignored_tokens={"c"}, excluded_token_regex="b")]

    def make(self):
        return _cls("vectorizers.tree_token_cooccurrence", "LabelledTreeCooccurrenceVectorizer")(**user_objects(self, self.cfg))

    def make_pool(self):
        fmts = ["csr", "lil", "csc", "coo", "lil", "csr"]      # the adjacency matrix may arrive in any sparse format

        def tree(parents, labels):
            n = len(parents)
            A = sp.lil_matrix((n, n))
            for v, p in enumerate(parents):
                if p >= 0:
                    A[p, v] = 1
            return (A.asformat(fmts.pop(0) if fmts else "csr"), np.array(labels))
        return [[tree([-1, 0, 0, 1], ["a", "b", "c", "a"]), tree([-1, 0], ["b", "a"])],
                [tree([-1, 0, 1, 2], ["a", "b", "a", "c"])], [tree([-1, 0, 0], ["c", "a", "b"]), tree([-1], ["a"])],
                [tree([-1, 0, 1], ["b", "b", "a"])]]


ALL = {c.name: c for c in [Ngram, Skipgram, LZ, BPE, Histogram, KDE, Distribution, InfoWeight, RowDenoise, CountCompress,
                           SlidingWindow, SeqDiff, TokenCooc, TimedCooc, MultiCooc, NgramCooc, EdgeList, TreeCooc]}
