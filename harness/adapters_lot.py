"""Adapters for the Wasserstein family (need the full package import)."""
import numpy as np
import scipy.sparse as sp

from .adapters import Adapter, _cls

V, D = 7, 8


def _points(seed=11):
    r = np.random.RandomState(seed)
    P = r.normal(size=(V, D)) + np.linspace(2.0, -1.0, D)
    return P


def _dists(seed=12, n=8):
    r = np.random.RandomState(seed)
    M = r.rand(n, V) * (r.rand(n, V) < 0.6)
    for i in range(n):
        if (M[i] > 0).sum() < 2:
            M[i, r.choice(V, 3, replace=False)] = r.rand(3) + 0.1
    M[1] = M[1] * 3.0            # not normalised on purpose
    return M


class LotBase(Adapter):
    heavy = True
    seedable = True
    rtol, atol = 1e-6, 1e-7
    min_fit = 6
    cls_name = "WassersteinVectorizer"
    base_cfg = {}

    def make(self):
        cfg = dict(n_components=2, reference_size=4, random_state=self.seed % 1000)
        cfg.update(self.base_cfg)
        cfg.update(self.cfg)
        return _cls("vectorizers.linear_optimal_transport", self.cls_name)(**cfg)

    def make_pool(self):
        self.P = _points()
        M = _dists()
        return [M[i] for i in range(M.shape[0])]

    def _ids(self, ids, fitting):
        if fitting and len(ids) < self.min_fit:
            ids = list(ids) + [k for k in range(1, len(self.pool) + 1) if k not in ids][: self.min_fit - len(ids)]
        return ids

    def batch(self, ids, fitting=False):
        ids = self._ids(ids, fitting)
        return sp.csr_matrix(np.vstack([self.pool[i - 1] for i in ids])), {"vectors": self.P.copy()}


class WassersteinExact(LotBase):
    name = "WassersteinVectorizer[LOT_exact,spmatrix]"
    knobs = [dict(memory_size="1k"), dict(memory_size="2G"), dict(memory_size="64k")]
    configs = [dict(), dict(metric="euclidean"), dict(memory_size="1k"), dict(metric="euclidean", memory_size="1k", reference_size=2),
               dict(max_distribution_size=3), dict(max_distribution_size=2, metric="euclidean", memory_size="1k")]


class WassersteinSinkhornMethod(LotBase):
    name = "WassersteinVectorizer[LOT_sinkhorn,spmatrix]"
    base_cfg = dict(method="LOT_sinkhorn")
    rtol, atol = 1e-5, 1e-6
    knobs = [dict(sinkhorn_chunk_size=1), dict(sinkhorn_chunk_size=3), dict(sinkhorn_chunk_size=32), dict(memory_size="1k")]
    configs = [dict(), dict(metric="euclidean", reference_size=4)]


class WassersteinHeuristic(LotBase):
    name = "WassersteinVectorizer[HeuristicLinearAlgebra]"
    base_cfg = dict(method="HeuristicLinearAlgebra")
    configs = [dict(), dict(heuristic_normalization_power=0.5)]

    def make(self):
        cfg = dict(n_components=2, random_state=self.seed % 1000)
        cfg.update(self.base_cfg)
        cfg.update(self.cfg)
        return _cls("vectorizers.linear_optimal_transport", self.cls_name)(**cfg)


class WassersteinLil(LotBase):
    name = "WassersteinVectorizer[LOT_exact,lil]"
    base_cfg = dict(input_method="lil")
    knobs = [dict(memory_size="1k"), dict(memory_size="2G")]
    configs = [dict(), dict(metric="euclidean"), dict(memory_size="1k"), dict(memory_size="1k", reference_size=17),
               dict(max_distribution_size=3)]

    def batch(self, ids, fitting=False):
        ids = self._ids(ids, fitting)
        X, vecs = [], []
        for i in ids:
            w = self.pool[i - 1]
            nz = np.nonzero(w)[0]
            X.append(np.ascontiguousarray(w[nz], dtype=np.float64))
            vecs.append(np.ascontiguousarray(self.P[nz]))
        return X, {"vectors": vecs}


class WassersteinGenerator(WassersteinLil):
    name = "WassersteinVectorizer[LOT_exact,generator]"
    configs = [dict(), dict(memory_size="1k"), dict(memory_size="1k", reference_size=17)]
    knobs = []
    no_arg_snapshot = True

    def make(self):
        cfg = dict(n_components=2, reference_size=4, random_state=self.seed % 1000, input_method="generator",
                   generator_vector_dim=D, generator_n_distributions=self._n)
        cfg.update(self.cfg)
        return _cls("vectorizers.linear_optimal_transport", self.cls_name)(**cfg)

    FAULT = 99          # item id meaning "the generator raises when it gets here"

    def batch(self, ids, fitting=False):
        fault_at = list(ids).index(self.FAULT) if self.FAULT in ids else None
        ids = [i for i in ids if i != self.FAULT]
        X, kw = WassersteinLil.batch(self, ids, fitting)
        self._n = len(X) + (1 if fault_at is not None else 0)
        if fault_at is not None:
            def faulty(seq, k):
                for j, v in enumerate(seq):
                    if j == k:
                        raise RuntimeError("injected fault: the data source failed at item %d" % k)
                    yield v
                if k >= len(seq):
                    raise RuntimeError("injected fault: the data source failed at the end")
            r = np.random.RandomState(5)
            ref = self.P.mean(axis=0) + r.normal(scale=0.3, size=(self.cfg.get("reference_size", 4), D))
            out = {"vectors": (v for v in kw["vectors"])}
            if fitting:
                out["reference_vectors"] = ref
            return faulty(X, fault_at), out
        r = np.random.RandomState(5)
        ref = self.P.mean(axis=0) + r.normal(scale=0.3, size=(self.cfg.get("reference_size", 4), D))
        out = {"vectors": (v for v in kw["vectors"])}
        if fitting:
            out["reference_vectors"] = ref
        return (x for x in X), out


class FarMate:
    """item 9 is a distribution concentrated on one support point that lies ~3000 cost units from everything else (a valid input:
    an outlier document); used by C12 to see whether it changes the rows of its batch mates"""

    def make_pool(self):
        pool = LotBase.make_pool(self)
        self.P = np.vstack([self.P, self.P[0] + 3000.0])
        pool = [np.concatenate([w, [0.0]]) for w in pool]
        far = np.zeros(V + 1)
        far[V] = 1.0
        return pool + [far]


class SinkhornFar(FarMate, LotBase):
    name = "SinkhornVectorizer[far batch mate]"
    cls_name = "SinkhornVectorizer"
    rtol, atol = 1e-5, 1e-6
    configs = [dict(metric="euclidean"), dict(metric="euclidean", chunk_size=2)]


class WassersteinSinkhornFar(FarMate, LotBase):
    name = "WassersteinVectorizer[LOT_sinkhorn, far batch mate]"
    base_cfg = dict(method="LOT_sinkhorn")
    rtol, atol = 1e-5, 1e-6
    configs = [dict(metric="euclidean")]


class WassersteinExactFar(FarMate, LotBase):
    name = "WassersteinVectorizer[LOT_exact, far batch mate]"
    configs = [dict(metric="euclidean"), dict()]


class Sinkhorn(LotBase):
    name = "SinkhornVectorizer"
    cls_name = "SinkhornVectorizer"
    rtol, atol = 1e-5, 1e-6
    knobs = [dict(chunk_size=1), dict(chunk_size=3), dict(chunk_size=32), dict(memory_size="1k")]
    configs = [dict(), dict(metric="euclidean", reference_size=4)]


class ApproxWasserstein(LotBase):
    name = "ApproximateWassersteinVectorizer"
    cls_name = "ApproximateWassersteinVectorizer"
    configs = [dict(), dict(normalization_power=0.66)]

    def make(self):
        cfg = dict(n_components=2, random_state=self.seed % 1000)
        cfg.update(self.cfg)
        return _cls("vectorizers.linear_optimal_transport", self.cls_name)(**cfg)

    transform_kwargs = False


class EmptyRows:
    """pool item 7 is the EMPTY distribution (an all-zero row of the sparse matrix: a valid input, e.g. a document none of whose
    tokens has a vector); items 1..6 are as usual.  Knob 1 makes one block hold 288 rows (> the minimal chunk of 256)."""
    knobs = [dict(memory_size="72k"), dict(memory_size="2G"), dict(memory_size="1k")]

    def make_pool(self):
        pool = LotBase.make_pool(self)
        pool[6] = np.zeros_like(pool[6])
        return pool


class WassersteinExactSpecial(EmptyRows, LotBase):
    name = "WassersteinVectorizer[LOT_exact,spmatrix, special batches]"
    configs = [dict(), dict(metric="euclidean", memory_size="1k")]


class WassersteinLilSpecial(EmptyRows, WassersteinLil):
    name = "WassersteinVectorizer[LOT_exact,lil, special batches]"
    configs = [dict()]

    def make_pool(self):           # (an empty list distribution has no documented meaning: the lil carrier only gets the long batches)
        return LotBase.make_pool(self)


class SinkhornSpecial(EmptyRows, LotBase):
    name = "SinkhornVectorizer[special batches]"
    cls_name = "SinkhornVectorizer"
    rtol, atol = 1e-5, 1e-6
    configs = [dict()]


SPECIAL = {c.name: c for c in [WassersteinExactSpecial, WassersteinLilSpecial, SinkhornSpecial]}
FAR = {c.name: c for c in [SinkhornFar, WassersteinSinkhornFar, WassersteinExactFar]}
ALL = {c.name: c for c in [WassersteinExact, WassersteinSinkhornMethod, WassersteinHeuristic, WassersteinLil, WassersteinGenerator,
                           Sinkhorn, ApproxWasserstein]}
ROWWISE = list(ALL)


# ---------------------------------------------------------------------------------- C08: encodings of measures
NP = 4          # support points of Measure.tla
COPIES = 5      # a point can be listed up to MaxLen times (splits)


class MeasureMixin:
    """pool items are encodings <<point, weight>>* emitted by Measure.tla (cfg['_encodings'])"""

    def make_pool(self):
        r = np.random.RandomState(101)
        self.PV = r.normal(size=(NP, D)) + np.linspace(1.5, -0.5, D)       # generic vectors: unique optimal plans a.s.
        self.P = self.PV
        return [list(map(tuple, e)) for e in self.cfg["_encodings"]]

    def clean_cfg(self):
        return {k: v for k, v in self.cfg.items() if not k.startswith("_")}


class MeasureLil(MeasureMixin, WassersteinLil):
    name = "Measure[LOT_exact,lil]"
    configs = [dict(), dict(metric="euclidean"), dict(memory_size="1k")]
    knobs = [dict(memory_size="1k"), dict(memory_size="2G"), dict(memory_size="3k"), dict(memory_size="54k")]   # 54k: 288-row blocks

    def make(self):
        cfg = dict(n_components=2, reference_size=3, random_state=self.seed % 1000, input_method="lil")
        cfg.update(self.clean_cfg())
        return _cls("vectorizers.linear_optimal_transport", "WassersteinVectorizer")(**cfg)

    def batch(self, ids, fitting=False):
        X, vecs = [], []
        for i in ids:
            e = self.pool[i - 1]
            X.append(np.array([float(w) for _, w in e], dtype=np.float64))
            vecs.append(np.ascontiguousarray(self.PV[[p - 1 for p, _ in e]]))
        return X, {"vectors": vecs}


class MeasureGen(MeasureLil):
    name = "Measure[LOT_exact,generator]"
    configs = [dict(), dict(memory_size="1k")]
    knobs = [dict(memory_size="1k"), dict(memory_size="2G")]
    no_arg_snapshot = True

    def make(self):
        cfg = dict(n_components=2, random_state=self.seed % 1000, input_method="generator", generator_vector_dim=D,
                   generator_n_distributions=self._n)
        cfg.update(self.clean_cfg())
        return _cls("vectorizers.linear_optimal_transport", "WassersteinVectorizer")(**cfg)

    def batch(self, ids, fitting=False):
        X, kw = MeasureLil.batch(self, ids, fitting)
        self._n = len(X)
        out = {"vectors": (v for v in kw["vectors"])}
        if fitting:
            r = np.random.RandomState(5)
            out["reference_vectors"] = self.PV.mean(axis=0) + r.normal(scale=0.3, size=(3, D))
        return (x for x in X), out


class MeasureSparse(MeasureMixin, LotBase):
    """sparse-matrix carrier: column (p, k) holds the k-th listed occurrence of point p; zero-weight entries are stored
    explicitly; listing order (Swap) has no counterpart in this format"""
    name = "Measure[LOT_exact,spmatrix]"
    configs = [dict(), dict(metric="euclidean", memory_size="1k")]
    knobs = [dict(memory_size="1k"), dict(memory_size="2G"), dict(memory_size="1k"), dict(memory_size="54k")]   # 54k: 288-row blocks
    method = "LOT_exact"

    def make(self):
        cfg = dict(n_components=2, reference_size=3, random_state=self.seed % 1000, method=self.method)
        cfg.update(self.clean_cfg())
        if self.method == "HeuristicLinearAlgebra":
            cfg.pop("reference_size")
        return _cls("vectorizers.linear_optimal_transport", "WassersteinVectorizer")(**cfg)

    def matrix(self, ids):
        data, indices, indptr = [], [], [0]
        for i in ids:
            seen = {}
            row = []
            for p, w in self.pool[i - 1]:
                k = seen.get(p, 0)
                seen[p] = k + 1
                row.append(((p - 1) * COPIES + k, float(w)))
            for c, w in sorted(row):
                indices.append(c)
                data.append(w)
            indptr.append(len(indices))
        return sp.csr_matrix((np.array(data), np.array(indices, dtype=np.int32), np.array(indptr, dtype=np.int32)),
                             shape=(len(ids), NP * COPIES))

    def batch(self, ids, fitting=False):
        return self.matrix(ids), {"vectors": np.repeat(self.PV, COPIES, axis=0)}


class MeasureSinkhornMethod(MeasureSparse):
    name = "Measure[LOT_sinkhorn,spmatrix]"
    method = "LOT_sinkhorn"
    rtol, atol = 1e-5, 1e-6
    configs = [dict(reference_size=4), dict(metric="euclidean", reference_size=3)]
    knobs = [dict(sinkhorn_chunk_size=1), dict(sinkhorn_chunk_size=2), dict(memory_size="1k")]


class MeasureHeuristic(MeasureSparse):
    name = "Measure[HeuristicLinearAlgebra]"
    method = "HeuristicLinearAlgebra"
    # only the default power 1.0 treats rows as distributions (documented); other powers make the scale matter on purpose
    configs = [dict(), dict(n_svd_iter=5)]
    knobs = []


class MeasureSinkhornVec(MeasureSparse):
    name = "Measure[SinkhornVectorizer]"
    rtol, atol = 1e-5, 1e-6
    configs = [dict(reference_size=4), dict(metric="euclidean")]
    knobs = [dict(chunk_size=1), dict(chunk_size=2), dict(memory_size="1k")]

    def make(self):
        cfg = dict(n_components=2, reference_size=3, random_state=self.seed % 1000)
        cfg.update(self.clean_cfg())
        return _cls("vectorizers.linear_optimal_transport", "SinkhornVectorizer")(**cfg)


class MeasureApprox(MeasureSparse):
    name = "Measure[ApproximateWassersteinVectorizer]"
    configs = [dict(), dict(n_svd_iter=5)]       # normalization_power != 1 is documented as scale dependent
    knobs = []
    transform_kwargs = False

    def make(self):
        cfg = dict(n_components=2, random_state=self.seed % 1000)
        cfg.update(self.clean_cfg())
        return _cls("vectorizers.linear_optimal_transport", "ApproximateWassersteinVectorizer")(**cfg)


class MeasureFormats(MeasureSparse):
    """one estimator kind whose CONFIGURATION is the input format (sparse matrix / lists / generators) carrying the same measures,
    fitted with the same explicit reference measure: the memo of the protocol is shared across the configurations, so equal
    measures must get equal embeddings whatever format carries them (C08)"""
    name = "Measure[LOT_exact, all formats, cosine]"
    metric = "cosine"
    configs = [dict(_fmt="spmatrix"), dict(_fmt="lil"), dict(_fmt="generator")]
    knobs = []
    no_arg_snapshot = True
    _n = 1

    def make(self):
        fmt = self.cfg["_fmt"]
        cfg = dict(n_components=2, random_state=self.seed % 1000, metric=self.metric)
        if fmt != "spmatrix":
            cfg["input_method"] = fmt
        if fmt == "generator":
            cfg.update(generator_vector_dim=D, generator_n_distributions=self._n)
        return _cls("vectorizers.linear_optimal_transport", "WassersteinVectorizer")(**cfg)

    def batch(self, ids, fitting=False):
        fmt = self.cfg["_fmt"]
        if fmt == "spmatrix":
            X, kw = MeasureSparse.batch(self, ids, fitting)
        else:
            X, kw = MeasureLil.batch(self, ids, fitting)
            self._n = len(X)
            if fmt == "generator":
                X, kw = (x for x in X), {"vectors": (v for v in kw["vectors"])}
        if fitting:
            r = np.random.RandomState(5)
            kw["reference_vectors"] = self.PV.mean(axis=0) + r.normal(scale=0.3, size=(3, D))
            kw["reference_distribution"] = np.full(3, 1.0 / 3.0)
        return X, kw


class MeasureFormatsEuclid(MeasureFormats):
    name = "Measure[LOT_exact, all formats, euclidean]"
    metric = "euclidean"


FORMATS = {c.name: c for c in [MeasureFormats, MeasureFormatsEuclid]}
MEASURE = {c.name: c for c in [MeasureLil, MeasureGen, MeasureSparse, MeasureSinkhornMethod, MeasureHeuristic, MeasureSinkhornVec,
                               MeasureApprox]}
ALL.update(MEASURE)
ROWWISE = [n for n in ROWWISE if not n.startswith("Measure")]
ALL.update(FAR)
ALL.update(SPECIAL)
ALL.update(FORMATS)
