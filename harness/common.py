"""Shared plumbing of the checks: context (counters, violations, known findings, evidence),
and a crash-isolating process pool that replays instances into the real package."""
import hashlib
import json
import os
import subprocess
import sys
import tempfile
import time

ROOT = os.path.dirname(os.path.dirname(os.path.abspath(__file__)))
REPO = os.environ.get("VERIF_REPO", "/repo")
PY = os.environ.get("VERIF_PYTHON", "/venv/bin/python")
NPROC = int(os.environ.get("VERIF_NPROC", "14"))
OUT = os.environ.get("VERIF_OUT") or None  # where evidence/ and replays/ go (default: /verif); used when trying seeded changes


def jdump(o):
    return json.dumps(o, sort_keys=True, default=_jd)


def _jd(o):
    try:
        import numpy as np
        if isinstance(o, np.integer):
            return int(o)
        if isinstance(o, np.floating):
            return float(o)
        if isinstance(o, np.ndarray):
            return o.tolist()
    except Exception:
        pass
    if isinstance(o, (set, frozenset)):
        return sorted(o)
    return repr(o)


class MachineryError(Exception):
    pass


class Ctx:
    def __init__(self, pid, tier, seed):
        self.pid, self.tier, self.seed = pid, tier, seed
        self.t0 = time.time()
        self.states = 0
        self.transitions = 0
        self.evaluations = 0
        self.traces = 0
        self.nontrivial = set()
        self.samples = []
        self.violations = []
        self.known_hits = {}
        self.notes = []
        self.parts = {}
        self.assumptions = []
        self.tlc_runs = []
        self.exhaustive = True
        self.drift = 0
        self.scale = 1.0          # C01 re-uses family parts on a fraction of their replay samples
        kf = os.path.join(ROOT, "known_findings.json")
        self.findings = json.load(open(kf)) if os.path.exists(kf) else []

    # ---- bookkeeping
    @property
    def quick(self):
        return self.tier == "quick"

    def pick(self, q, t):
        return q if self.quick else t

    def n(self, k):
        """sample size scaled by ctx.scale"""
        return max(50, int(k * self.scale))

    def log(self, *a):
        print("[%s %6.1fs]" % (self.pid, time.time() - self.t0), *a, file=sys.stderr, flush=True)

    def add_tlc(self, res, what):
        self.states += res.distinct if res.distinct else res.generated
        self.transitions += res.generated
        self.tlc_runs.append({"what": what, "generated": res.generated, "distinct": res.distinct,
                              "wall_s": round(res.wall, 1)})
        if res.errors:
            raise MachineryError("TLC failed in %s: %s\n%s" % (what, res.errors[:3], res.raw[-3000:]))

    def count(self, part, n=1):
        self.parts[part] = self.parts.get(part, 0) + n

    def sample(self, s, limit=4):
        if len(self.samples) < limit:
            self.samples.append(s)

    def nontriv(self, key):
        self.nontrivial.add(key if isinstance(key, str) else hashlib.sha1(jdump(key).encode()).hexdigest()[:16])

    def par(self, thunks, workers=4):
        """run independent thunks concurrently (each typically: one TLC run + one pool_map)"""
        from concurrent.futures import ThreadPoolExecutor
        with ThreadPoolExecutor(max_workers=workers) as ex:
            futs = [ex.submit(t) for t in thunks]
            return [f.result() for f in futs]

    # ---- violations / findings
    def violation(self, ident, detail):
        """ident: dict of small fields identifying the failing input/call site (matched against
        known_findings.json); detail: anything needed to replay."""
        for f in self.findings:
            if f.get("property") == self.pid and f.get("status") == "known" and \
                    all(ident.get(k) == v for k, v in f.get("match", {}).items()):
                key = f.get("id", jdump(f.get("match")))
                if key not in self.known_hits:
                    self.known_hits[key] = f
                    print("KNOWN-FINDING: property=%s %s" % (self.pid, f.get("what", key)), flush=True)
                return False
        h = hashlib.sha1(jdump(ident).encode()).hexdigest()[:12]
        if any(v["hash"] == h for v in self.violations):
            return True
        d = os.path.join(OUT or ROOT, "replays", self.pid)
        path = os.path.join(d, h + ".json")
        if len(self.violations) < 25:
            os.makedirs(d, exist_ok=True)
            with open(path, "w") as fh:
                fh.write(json.dumps({"property": self.pid, "ident": ident, "detail": detail}, indent=1,
                                    sort_keys=True, default=_jd))
        self.violations.append({"hash": h, "ident": ident, "path": path})
        if len(self.violations) <= 25:
            print("VIOLATION property=%s replay=%s" % (self.pid, path), flush=True)
            self.log("violation:", jdump(ident)[:400])
        return True

    def tlc_violation(self, res, what):
        if res.violated or res.post_failed:
            self.violation({"kind": "tlc", "what": what, "violated": sorted(set(res.violated)) or ["POSTCONDITION"]},
                           {"tail": res.raw[-6000:], "cmd": res.cmd})
            return True
        return False

    # ---- evidence
    def finish(self, level="model_checking", rule="", extra=None):
        cov = {
            "states": int(self.states), "transitions": int(self.transitions),
            "traces_validated_against_impl": int(self.traces),
            "evaluations": int(self.evaluations), "distinct_nontrivial": len(self.nontrivial),
            "rule": rule, "samples": self.samples or [{"note": "no sample recorded"}],
            "exhaustive": bool(self.exhaustive), "parts": self.parts, "tlc_runs": self.tlc_runs,
            "known_findings_hit": sorted(self.known_hits), "model_drift": self.drift,
            "notes": self.notes,
        }
        if extra:
            cov.update(extra)
        ev = {"property_id": self.pid, "tier": self.tier, "seed": int(self.seed), "level": level,
              "coverage": cov, "assumptions": self.assumptions, "wall_s": round(time.time() - self.t0, 2),
              "violations": len(self.violations)}
        os.makedirs(os.path.join(OUT or ROOT, "evidence"), exist_ok=True)
        with open(os.path.join(OUT or ROOT, "evidence", self.pid + ".json"), "w") as fh:
            fh.write(json.dumps(ev, indent=1, default=_jd))
        if self.violations:
            import collections
            cnt = collections.Counter(jdump({k: v for k, v in v_["ident"].items()
                                             if k not in ("corpus", "h", "kv_prefix", "input", "x", "instance", "test", "edges", "data", "inst", "a", "b", "y", "c", "event", "seed", "history", "exc", "first_step", "doc", "prior", "first", "col2")})[:300]
                                      for v_ in self.violations)
            for k, n in cnt.most_common(40):
                self.log("  %5d x %s" % (n, k))
        self.log("done: evaluations=%d traces=%d states=%d violations=%d known=%d" % (
            self.evaluations, self.traces, self.states, len(self.violations), len(self.known_hits)))
        return 1 if self.violations else 0


# --------------------------------------------------------------------------------------
# crash-isolating pool
# --------------------------------------------------------------------------------------
def child_env(mode="jit", extra=None):
    e = dict(os.environ)
    e["PYTHONPATH"] = ROOT + os.pathsep + REPO + os.pathsep + e.get("PYTHONPATH", "")
    e["PYTHONHASHSEED"] = "0"
    e["PYTHONWARNINGS"] = "ignore"
    e.setdefault("NUMBA_NUM_THREADS", "4")
    e["OMP_NUM_THREADS"] = "1"
    e["OPENBLAS_NUM_THREADS"] = "1"
    e["MKL_NUM_THREADS"] = "1"
    e.pop("NUMBA_BOUNDSCHECK", None)
    e.pop("NUMBA_DISABLE_JIT", None)
    if mode == "boundscheck":
        e["NUMBA_BOUNDSCHECK"] = "1"
    elif mode == "nojit":
        e["NUMBA_DISABLE_JIT"] = "1"
    if extra:
        e.update({k: str(v) for k, v in extra.items()})
    return e


def _run_worker(worker, func, items, env, timeout):
    """Run items in one child; returns (results list aligned with items, crashed_index or None, info)."""
    tmp = tempfile.mkdtemp(prefix="verif_w_")
    inp, outp = os.path.join(tmp, "in.json"), os.path.join(tmp, "out.ndjson")
    try:
        with open(inp, "w") as f:
            json.dump(items, f)
        try:
            p = subprocess.run([PY, "-m", "harness.worker", worker, func, inp, outp], env=env, cwd=ROOT,
                               stdout=subprocess.PIPE, stderr=subprocess.PIPE, timeout=timeout)
            rc, err = p.returncode, p.stderr.decode("utf8", "replace")[-2000:]
        except subprocess.TimeoutExpired:
            rc, err = "timeout", ""
        res = []
        if os.path.exists(outp):
            with open(outp) as f:
                for line in f:
                    line = line.strip()
                    if line:
                        try:
                            res.append(json.loads(line))
                        except Exception:
                            break
        if rc == 0 and len(res) == len(items):
            return res, None, ""
        return res, len(res), "rc=%s stderr=%s" % (rc, err)
    finally:
        import shutil
        shutil.rmtree(tmp, ignore_errors=True)


def pool_map(worker, func, items, mode="jit", env=None, nproc=None, timeout=3000, min_chunk=1):
    """Apply harness.workers.<worker>.<func>(item) to every item in child processes.
    A child that dies (heap corruption, segfault) yields {"crash": info} for the killing item and the
    rest of its chunk is re-run in a new child.  Result order = item order."""
    from concurrent.futures import ThreadPoolExecutor
    nproc = nproc or NPROC
    n = len(items)
    if n == 0:
        return []
    nchunks = max(1, min(nproc, n // max(1, min_chunk)))
    idx = [list(range(i, n, nchunks)) for i in range(nchunks)]
    e = child_env(mode, env)
    out = [None] * n

    def job(ix):
        todo = list(ix)
        while todo:
            res, crashed, info = _run_worker(worker, func, [items[i] for i in todo], e, timeout)
            for i, r in zip(todo, res):
                out[i] = r
            if crashed is None:
                break
            if crashed < len(todo):
                out[todo[crashed]] = {"crash": info}
            todo = todo[crashed + 1:]

    with ThreadPoolExecutor(max_workers=nchunks) as ex:
        list(ex.map(job, idx))
    return out
