"""Instances of SlidingWindow.tla (python side: generation and rendering for the real transformer)."""
import itertools
import random


def instances(tier, seed):
    rng = random.Random(seed)
    out = []
    Ls = range(0, 8 if tier == "quick" else 10)
    for L, width, stride, pad in itertools.product(Ls, range(1, 6), (1, 2, 3), (0, 1, 2)):
        if L + 2 * pad < width:
            continue
        samples = [["none"], ["int", 1], ["int", 2], ["int", 3], ["pair", 0, 2], ["pair", 1, 1], ["pair", 1, 2], ["pair", 2, 3],
                   ["list", [0]], ["list", [width - 1]], ["list", list(range(width))[::-1]],
                   ["list", [0, width - 1]], ["list", list(range(1, width)) + [0]]]
        for s in samples:
            pos = positions(s, width)
            if not pos or max(pos) >= width or len(set(pos)) != len(pos):
                continue
            ns = len(pos)
            kernels = [["id"], ["average"], ["differences", 0, 1, 1], ["differences", 0, 2, 2], ["differences", 1, 1, 2],
                       ["differences", 0, 1, 3], ["weight", [(k % 3) + 1 for k in range(ns)]]]
            for k in kernels:
                if k[0] == "differences" and ns - k[1] - k[2] <= 0:
                    continue
                out.append(dict(L=L, D=1, width=width, stride=stride, pad=pad, pv=rng.choice([0, 7]), sample=s, kernel=k))
    # SequentialDifferenceTransformer family and multivariate inputs
    for L, s in itertools.product(range(2, 9), (1, 2, 3, 4)):
        if L >= s + 1:
            out.append(dict(L=L, D=1, width=s + 1, stride=1, pad=0, pv=0, sample=["none"], kernel=["differences", 0, s, s], seqdiff=True))
    # every fit compiles a fresh kernel closure and a fresh specialisation of sliding_windows (~1-2 s), so the
    # replayed set is a seeded sample of the enumerated space; TLC still checks its invariants on all of it
    seqd = [x for x in out if x.get("seqdiff")]
    rest = [x for x in out if not x.get("seqdiff")]
    n = 420 if tier == "quick" else 1000
    pick = rng.sample(rest, min(len(rest), n))
    multi = [dict(x, D=2) for x in rng.sample(rest, min(len(rest), n // 6))]
    return {"all": out, "replay": seqd + pick + multi}


def positions(s, width):
    if s[0] == "none":
        return list(range(width))
    if s[0] == "int":
        return list(range(0, width, s[1]))
    if s[0] == "pair":
        return list(range(s[1], width, s[2]))
    return list(s[1])


def tla_inst(x):
    return {k: v for k, v in x.items() if k != "seqdiff"}
