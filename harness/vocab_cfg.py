"""Pruning configurations for Vocab.tla and their rendering as keyword arguments of the real preprocessing."""
import random

from . import tlc

NONE, SAME = -1, -2
NAMES = ["a1", "a1x", "xa1", "ya", "z9"]
REGEX = {(): None, (0,): r"[a-z]\d", (0, 1): r"[a-z]\d.?"}


def cfg(**kw):
    c = dict(minOcc=NONE, maxOcc=NONE, minFreq=(NONE, 1), maxFreq=(NONE, 1), minDocOcc=NONE, maxDocOcc=NONE,
             minDocFreq=(NONE, 1), maxDocFreq=(NONE, 1), excluded=(), regexHit=(), maxUnique=NONE)
    c.update(kw)
    return c


def tla_cfg(c):
    d = dict(c)
    for k in ("minFreq", "maxFreq", "minDocFreq", "maxDocFreq"):
        d[k] = list(c[k])
    d["excluded"] = tlc.TLAExpr("{" + ", ".join(str(x) for x in c["excluded"]) + "}")
    d["regexHit"] = tlc.TLAExpr("{" + ", ".join(str(x) for x in c["regexHit"]) + "}")
    return d


def build_cfgs(seed, n):
    """n configurations: first one of every kind of constraint (so that even a short list exercises each of them), then the
    remaining single-constraint configurations interleaved with random combinations"""
    rng = random.Random(seed)
    head = [cfg(), cfg(minOcc=2), cfg(maxOcc=1), cfg(minDocOcc=2), cfg(maxDocOcc=1), cfg(minFreq=(1, 3)), cfg(maxFreq=(1, 2)),
            cfg(minDocFreq=(1, 2)), cfg(maxDocFreq=(1, 2)), cfg(excluded=(0,)), cfg(regexHit=(0,)), cfg(maxUnique=1), cfg(maxUnique=2),
            cfg(maxUnique=2, excluded=(1,)), cfg(maxUnique=1, minOcc=2), cfg(maxUnique=2, maxDocOcc=1), cfg(maxUnique=3)]
    single = []
    for k in range(0, 5):
        single.append(cfg(minOcc=k))
        single.append(cfg(maxOcc=k + 1))
    for k in range(0, 4):
        single.append(cfg(minDocOcc=k))
        single.append(cfg(maxDocOcc=k + 1))
    for f in [(1, 2), (1, 3), (2, 3), (1, 4), (1, 5), (2, 5)]:
        single += [cfg(minFreq=f), cfg(maxFreq=f), cfg(minDocFreq=f), cfg(maxDocFreq=f)]
    for ex in [(0,), (1,), (0, 2)]:
        single.append(cfg(excluded=ex))
    for rh in [(0,), (0, 1)]:
        single.append(cfg(regexHit=rh))
    single = [c for c in single if c not in head]
    rng.shuffle(single)
    combos = []
    while len(combos) < n:
        c = {}
        if rng.random() < 0.5:
            c[rng.choice(["minOcc", "maxOcc"])] = rng.randint(1, 3)
        elif rng.random() < 0.5:
            c[rng.choice(["minFreq", "maxFreq"])] = rng.choice([(1, 2), (1, 3), (2, 3), (1, 4), (3, 4)])
        if rng.random() < 0.5:
            c[rng.choice(["minDocOcc", "maxDocOcc"])] = rng.randint(1, 2)
        elif rng.random() < 0.4:
            c[rng.choice(["minDocFreq", "maxDocFreq"])] = rng.choice([(1, 2), (1, 3), (2, 3)])
        if rng.random() < 0.3:
            c["excluded"] = rng.choice([(0,), (1,), (2,), (0, 1)])
        if rng.random() < 0.3:
            c["regexHit"] = rng.choice([(0,), (0, 1)])
        if rng.random() < 0.4:
            c["maxUnique"] = rng.randint(1, 2)
        combos.append(cfg(**c))
    out = list(head)
    k = 0
    while len(out) < n:
        if k % 2 == 0 and single:
            out.append(single.pop())
        else:
            out.append(combos.pop())
        k += 1
    return out[:n]


def boundary_cfgs():
    return [cfg(minOcc=SAME), cfg(maxOcc=SAME), cfg(minFreq=(SAME, 1)), cfg(maxFreq=(SAME, 1)),
            cfg(minDocOcc=SAME), cfg(maxDocOcc=SAME), cfg(minDocFreq=(SAME, 1)), cfg(maxDocFreq=(SAME, 1)),
            cfg(minOcc=SAME, maxOcc=SAME), cfg(minFreq=(SAME, 1), maxFreq=(SAME, 1))]


def py_kwargs(c, corpus):
    """keyword arguments of preprocess_* for configuration c on `corpus` (list of lists of token indices)"""
    flat = [t for d in corpus for t in d]
    cnt0, total = flat.count(0), len(flat)
    dc0, nd = sum(1 for d in corpus if 0 in d), len(corpus)
    kw = {}

    def ival(x, same):
        return None if x == NONE else (same if x == SAME else x)

    def fval(f, n, d):
        if f[0] == NONE:
            return None
        return (n / d) if f[0] == SAME else f[0] / f[1]

    kw["min_occurrences"] = ival(c["minOcc"], cnt0)
    kw["max_occurrences"] = ival(c["maxOcc"], cnt0)
    kw["min_frequency"] = fval(c["minFreq"], cnt0, total)
    kw["max_frequency"] = fval(c["maxFreq"], cnt0, total)
    kw["min_document_occurrences"] = ival(c["minDocOcc"], dc0)
    kw["max_document_occurrences"] = ival(c["maxDocOcc"], dc0)
    kw["min_document_frequency"] = fval(c["minDocFreq"], dc0, nd)
    kw["max_document_frequency"] = fval(c["maxDocFreq"], dc0, nd)
    kw["max_unique_tokens"] = None if c["maxUnique"] == NONE else c["maxUnique"]
    kw["excluded"] = set(NAMES[i] for i in c["excluded"]) or None
    kw["regex"] = REGEX[tuple(c["regexHit"])]
    return kw
