"""Generate (corpus, configuration, expected cells) instances from specs/Cooc.tla with TLC."""
from concurrent.futures import ThreadPoolExecutor

from . import tlc
from .cooc_cfg import tla_cfg

INVS = ["Refines", "BeforeIsTransposeOfAfter", "WindowMassOne", "ShiftInvariant", "MaskKeepsPositions", "NullifyRemovesOnlyTheMask", "ThreshOK"]


def emit_shapes(ctx, V, shapes, cfgs, what, **kw):
    """emit() for several (maxlen, maxdocs) bounds; the union of the instances (bounded instance spaces instead of one huge product)"""
    items = []
    for maxlen, maxdocs in shapes:
        items += emit(ctx, V, maxlen, maxdocs, cfgs, "%s [len<=%d docs<=%d]" % (what, maxlen, maxdocs), **kw)
    return items


def emit(ctx, V, maxlen, maxdocs, cfgs, what, module="Cooc", simulate=None, depth=None, seed=0, shards=8,
         invariants=INVS, extra_constants=None, timeout=3000):
    """Returns list of items {corpus, ci, cfg, V, cells}. cfgs are split over `shards` TLC processes."""
    shards = max(1, min(shards, len(cfgs)))
    groups = [list(range(i, len(cfgs), shards)) for i in range(shards)]

    def one(g):
        sub = [tla_cfg(cfgs[i], V) for i in g]
        const = dict(V=V, Cfgs=sub, EMIT=True)
        if module == "Cooc":
            const.update(MaxLen=maxlen, MaxDocs=maxdocs, TIMED=False, Gaps=tlc.TLAExpr("{1}"),
                         Prunes=[{"excluded": tlc.TLAExpr("{}"), "mask": False}], Eps=[])
        if module in ("CoocMulti", "CoocNgram"):
            const.update(AllowMask=False)
        if extra_constants:
            const.update(extra_constants)
        r = tlc.run_tlc(module, const, invariants=list(invariants) + ["EmitInv"], workers=1,
                        simulate=simulate, depth=depth, seed=seed if simulate else None, timeout=timeout, heap="3g")
        return g, r

    with ThreadPoolExecutor(max_workers=shards) as ex:
        results = list(ex.map(one, groups))
    items = []
    for g, r in results:
        ctx.add_tlc(r, "%s [%d cfgs]" % (what, len(g)))
        ctx.tlc_violation(r, what)
        for p in r.prints:
            gi = g[p["ci"] - 1]
            p = dict(p)
            p.update(ci=gi, cfg=cfgs[gi], V=V)
            items.append(p)
    return items
