"""Configurations of the co-occurrence family, rendered both as TLA+ records (constant Cfgs of
specs/Cooc.tla) and as constructor arguments of the real vectorizers."""
import itertools
import random

TOKS = "abcdefgh"


def win(orient="after", r=2, offset=0, knorm=False, mix=1, table=None, var=None):
    """var: None (fixed radius r, or the radius table) or the power 0 / 2 of window_functions="variable" (r is then the base size)"""
    return {"orient": orient, "r": r, "offset": offset, "knorm": knorm, "mix": mix, "table": table, "var": var}


def cfg(kernel="flat", wnorm=False, wins=None, nullify=False):
    return {"kernel": kernel, "wnorm": wnorm, "nullify": nullify, "wins": wins or [win()]}


def tla_cfg(c, V):
    """python cfg -> dict renderable by tlc.tla(); radius is a table over indices 0..V"""
    ws = []
    for w in c["wins"]:
        tab = list(w["table"]) if w["table"] else [w["r"]] * V
        tab = (tab + [tab[-1]] * (V + 1))[: V + 1]
        if c["nullify"]:
            tab[V] = 0
        ws.append({"orient": w["orient"], "radius": tab, "offset": w["offset"], "knorm": bool(w["knorm"]),
                   "mix": w["mix"], "var": -1 if w.get("var") is None else int(w["var"]), "ws": w["r"]})
    return {"kernel": c["kernel"], "wnorm": bool(c["wnorm"]), "nullify": bool(c["nullify"]), "wins": ws}


def quick_cfgs():
    out = []
    for kernel, orient, wnorm in itertools.product(["flat", "harmonic", "geometric"],
                                                   ["before", "after", "directional"], [False, True]):
        for r in (1, 2):
            out.append(cfg(kernel, wnorm, [win(orient, r)]))
    return out


def wide_cfgs(V, seed, n):
    """wider configuration space: offsets, kernel normalisation, mix weights, two windows, radius tables"""
    rng = random.Random(seed)
    out = []
    while len(out) < n:
        kernel = rng.choice(["flat", "harmonic", "geometric"])
        nw = rng.choice([1, 1, 2])
        ws = []
        for _ in range(nw):
            r = rng.randint(1, 3)
            table = None
            if rng.random() < 0.4:
                table = [rng.randint(1, 3) for _ in range(V)]
                r = max(table)
            ws.append(win(rng.choice(["before", "after", "directional"]), r, rng.choice([0, 0, 1, 2]),
                          rng.random() < 0.3, rng.choice([1, 1, 2, 3]), table))
        out.append(cfg(kernel, rng.random() < 0.5, ws))
    return out


def describe(c):
    return "%s wnorm=%s nullify=%s " % (c["kernel"], c["wnorm"], c["nullify"]) + " ".join(
        "[%s r=%s%s off=%d knorm=%s mix=%s]" % (w["orient"], w["table"] or w["r"], "" if w.get("var") is None else " variable(power=%s)" % w["var"],
                                                   w["offset"], w["knorm"], w["mix"])
        for w in c["wins"])


def timed_cfgs(V, seed, n):
    rng = random.Random(seed)
    out = []
    for kernel in ("flat", "geometric"):
        for orient in ("before", "after", "directional"):
            for wnorm in (False, True):
                out.append(cfg(kernel, wnorm, [win(orient, 2)]))
    while len(out) < n:
        kernel = rng.choice(["flat", "geometric"])
        ws = [win(rng.choice(["before", "after", "directional"]), rng.randint(1, 3), rng.choice([0, 0, 1]),
                  rng.random() < 0.3, rng.choice([1, 1, 2])) for _ in range(rng.choice([1, 1, 2]))]
        out.append(cfg(kernel, rng.random() < 0.5, ws))
    return out[:n]


def multi_cfgs(V, seed, n):
    rng = random.Random(seed)
    out = []
    for kernel in ("flat", "geometric"):
        for orient in ("before", "after", "directional"):
            for wnorm in (False, True):
                out.append(cfg(kernel, wnorm, [win(orient, 1)]))
    out.append(cfg("flat", False, [win("after", 2, offset=1)]))
    out.append(cfg("geometric", False, [win("directional", 2, offset=1)]))
    out.append(cfg("flat", False, [win("after", 2, table=[1, 2, 1][:V])]))
    out.append(cfg("geometric", True, [win("before", 2, table=[2, 1, 2][:V])]))
    while len(out) < n:
        kernel = rng.choice(["flat", "geometric"])
        ws = []
        for _ in range(rng.choice([1, 1, 2])):
            r = rng.randint(1, 2)
            table = None
            if rng.random() < 0.4:
                table = [rng.randint(1, 2) for _ in range(V)]
                r = max(table)
            ws.append(win(rng.choice(["before", "after", "directional"]), r, rng.choice([0, 0, 1, 2]),
                          rng.random() < 0.3, rng.choice([1, 1, 2]), table))
        out.append(cfg(kernel, rng.random() < 0.5, ws))
    return out[:n]


def with_variable(cfgs, rng, share=0.5):
    """copies of configurations in which some windows use window_functions="variable" (power 0 or 2, base size 1..3)"""
    out = []
    for c in cfgs:
        c = dict(c, wins=[dict(w) for w in c["wins"]])
        hit = False
        for w in c["wins"]:
            if w["table"] is None and (rng.random() < share or not hit):
                w["var"] = rng.choice([0, 2])
                w["r"] = rng.choice([1, 2, 2, 3])
                hit = True
        if hit:
            out.append(c)
    return out
