---- MODULE TokStage ----
(***************************************************************************)
(* Stage 1 shared by the document vectorizers (Ngram, Skipgram): the kept  *)
(* token vocabulary under a pruning record                                 *)
(*   tok = [minOcc, maxOcc, minDocOcc, maxDocOcc, excluded, maxUnique]     *)
(* (-1 = None) and the rewriting of sequences: pruned/unseen tokens are    *)
(* deleted, or replaced in place by the mask index V when masking is on.   *)
(* (The full constraint set, incl. frequencies and regex, is Vocab.tla.)   *)
(***************************************************************************)
EXTENDS CorpusGen
None == -1
MASK == V

\* ---------------------------------------------------------------- stage 1
Flat(c) == FlattenSeq(c)
TCount(c, t) == CountIn(Flat(c), t)
TDoc(c, t) == Cardinality({d \in DOMAIN c : \E p \in DOMAIN c[d] : c[d][p] = t})
NumOK(p, cnt, dcnt) == /\ (p.minOcc # None => cnt >= p.minOcc) /\ (p.maxOcc # None => cnt <= p.maxOcc)
                       /\ (p.minDocOcc # None => dcnt >= p.minDocOcc) /\ (p.maxDocOcc # None => dcnt <= p.maxDocOcc)
TopK(S, Cnt(_), k) == IF k = None \/ Cardinality(S) <= k THEN S
                      ELSE LET x == CHOOSE y \in {Cnt(t) : t \in S} :
                                       /\ Cardinality({t \in S : Cnt(t) > y}) <= k
                                       /\ Cardinality({t \in S : Cnt(t) >= y}) >= k + 1
                           IN {t \in S : Cnt(t) > x}
KeptTok(c, f) == TopK({t \in Tok : TCount(c, t) > 0 /\ NumOK(f.tok, TCount(c, t), TDoc(c, t)) /\ t \notin f.tok.excluded},
                      LAMBDA t : TCount(c, t), f.tok.maxUnique)
\* the sequences seen by stage 2 / by the counting loop
Pre(doc, K, f) == IF f.mask THEN [p \in DOMAIN doc |-> IF doc[p] \in K THEN doc[p] ELSE MASK]
                  ELSE SelectSeq(doc, LAMBDA t : t \in K)
PreC(c, K, f) == [d \in DOMAIN c |-> Pre(c[d], K, f)]

====
