---- MODULE CoocNgram ----
(***************************************************************************)
(* Meaning of NgramCooccurrenceVectorizer (n_iter = 0, epsilon = 0):       *)
(* rows are n-grams (runs of N consecutive kept tokens), columns are       *)
(* tokens.  An occurrence of n-gram g ends at position p (p >= N); its     *)
(* 'after' window starts at p + 1, its 'before' window ends at p - N;      *)
(* windows have a fixed radius and never leave the document.               *)
(***************************************************************************)
EXTENDS CoocCore
CONSTANTS V, N, MaxLen, MaxDocs, Cfgs, EMIT,
          AllowMask     \* BOOLEAN: the generated corpora may contain the mask token V (positions of pruned tokens, C14)
Tok == 0..V
VARIABLES corpus, ci, done
vars == <<corpus, ci, done>>

Gram(doc, p) == SubSeq(doc, p - N + 1, p)
\* with nullify_mask the n-gram made of mask tokens only has radius 0 (its row is zero)
AllMask(g) == \A i \in DOMAIN g : g[i] = V
CtxC(cfg, doc, p, w) == LET r == IF cfg.nullify /\ AllMask(Gram(doc, p)) THEN 0 ELSE w.radius[1] IN
                  IF w.orient = "after"
                  THEN [j \in 1..Max2(0, Min2(r, Len(doc) - p)) |-> p + j]
                  ELSE [j \in 1..Max2(0, Min2(r, p - N)) |-> p - N + 1 - j]
KNum(cfg, w, doc, j, q) == IF j <= w.offset \/ (cfg.nullify /\ doc[q] = V) THEN 0 ELSE KBase(cfg, j)
WinK(cfg, doc, p, w) ==
  LET cx == CtxC(cfg, doc, p, w)
  IN WinRec(cfg, w, [j \in DOMAIN cx |-> doc[cx[j]]], [j \in DOMAIN cx |-> KNum(cfg, w, doc, j, cx[j])])
EventsAt(cfg, doc, p) ==
  LET ws == IWins(cfg) IN OccEvents(cfg, Gram(doc, p), [i \in DOMAIN ws |-> WinK(cfg, doc, p, ws[i])])
EventsDoc(cfg, doc) == FlattenSeq([k \in 1..Max2(0, Len(doc) - N + 1) |-> EventsAt(cfg, doc, k + N - 1)])
Events(cfg, c) == FlattenSeq([d \in DOMAIN c |-> EventsDoc(cfg, c[d])])
Cells(cfg, c) == CellsOf(Events(cfg, c))

\* declarative: pairs (occurrence of g at [s, s+N-1], token b at position q) at index distance k
Grams == [1..N -> Tok]
DeclCell(cfg, c, i, g, b) ==
  LET w == IWins(cfg)[i] IN
  SumSeq([d \in DOMAIN c |-> SumSeq([s \in 1..Max2(0, Len(c[d]) - N + 1) |->
     IF SubSeq(c[d], s, s + N - 1) # g THEN 0
     ELSE SumSeq([q \in DOMAIN c[d] |->
            LET k == IF w.orient = "after" THEN q - (s + N - 1) ELSE s - q IN
            IF k >= 1 /\ k <= w.radius[1] /\ c[d][q] = b /\ k > w.offset /\ ~(cfg.nullify /\ (b = V \/ AllMask(g)))
            THEN w.mix * KBase(cfg, k) ELSE 0])])])
Refines == done /\ Plain(Cfgs[ci]) =>
   LET cfg == Cfgs[ci]  cs == Cells(cfg, corpus) IN
   \A i \in DOMAIN IWins(cfg), g \in Grams, b \in Tok :
       DeclCell(cfg, corpus, i, g, b) = CellInt(cs, <<i, g, b>>, KDen(cfg))
WindowMassOne == done /\ Cfgs[ci].wnorm =>
   \A d \in DOMAIN corpus : \A p \in N..Len(corpus[d]) : MassOne(EventsAt(Cfgs[ci], corpus[d], p))

Init == corpus = << <<>> >> /\ ci \in DOMAIN Cfgs /\ done = FALSE
AddTok(t) == /\ ~done /\ Len(corpus[Len(corpus)]) < MaxLen
             /\ corpus' = [corpus EXCEPT ![Len(corpus)] = Append(@, t)] /\ UNCHANGED <<ci, done>>
NewDoc == /\ ~done /\ Len(corpus) < MaxDocs
          /\ corpus' = Append(corpus, <<>>) /\ UNCHANGED <<ci, done>>
HasGram(c) == \E d \in DOMAIN c : Len(c[d]) >= N
Finish == /\ ~done /\ HasGram(corpus) /\ done' = TRUE /\ UNCHANGED <<corpus, ci>>
Next == (\E t \in 0..(IF AllowMask THEN V ELSE V - 1) : AddTok(t)) \/ NewDoc \/ Finish
Spec == Init /\ [][Next]_vars
EmitInv == IF EMIT /\ done
           THEN PrintT(ToJson([corpus |-> corpus, ci |-> ci, cells |-> CellsJson(Cfgs[ci], Cells(Cfgs[ci], corpus))]))
           ELSE TRUE
====
