---- MODULE Cooc ----
(***************************************************************************)
(* Meaning of TokenCooccurrenceVectorizer and                              *)
(* TimedTokenCooccurrenceVectorizer with n_iter = 0, epsilon = 0           *)
(* (property C03; reused by C01, C02, C04, C11, C14, C15).                 *)
(*                                                                         *)
(* A corpus is a sequence of documents, a document a sequence of token     *)
(* indices in 0..V (index V is only used by Mask.tla for the mask token);  *)
(* `times` has the same shape and holds integer time stamps (non-          *)
(* decreasing inside a document).  Windows are index windows of the        *)
(* target token's radius that never leave the document.  With TIMED the    *)
(* kernel distance is |time difference| (delta = 1), otherwise the         *)
(* 1-based index distance.                                                 *)
(*                                                                         *)
(* Events is the stream of co-occurrence events in the order the           *)
(* implementation emits them (document, position, internal window,         *)
(* context nearest-first); Cells folds it into the matrix; DeclCell is an  *)
(* independent, purely declarative statement of an entry for the           *)
(* un-normalised case, and TLC checks that both agree on every instance.   *)
(***************************************************************************)
EXTENDS CoocCore
CONSTANTS V,        \* vocabulary size
          MaxLen,   \* maximal document length
          MaxDocs,  \* maximal number of documents
          Cfgs,     \* sequence of configurations to pair with every corpus
          Prunes,   \* sequence of [excluded : set of tokens, mask : BOOLEAN] vocabulary settings (C14);
                    \* <<[excluded |-> {}, mask |-> FALSE]>> leaves the corpus as it is
          Eps,      \* sequence of thresholds <<num, den>> for which the epsilon-thresholded matrix is emitted (C11); may be <<>>
          TIMED,    \* BOOLEAN: timed variant
          Gaps,     \* allowed time gaps between consecutive tokens ({1} when not TIMED)
          EMIT      \* print every finished instance with its expected cells
Tok == 0..V
VARIABLES corpus, times, ci, pi, done
vars == <<corpus, times, ci, pi, done>>

\* ---------------------------------------------------------------- vocabulary pruning: delete or mask (C14)
\* tokens removed from the vocabulary are deleted (their neighbours become adjacent) or, with a mask string,
\* replaced in place by the mask token V (lengths, distances and time stamps preserved)
KeptTok(pr) == (0..(V - 1)) \ pr.excluded
KeptPos(doc, pr) == SelectSeq([p \in DOMAIN doc |-> p], LAMBDA p : doc[p] \in KeptTok(pr))
EffDoc(doc, pr) == IF pr.mask THEN [p \in DOMAIN doc |-> IF doc[p] \in KeptTok(pr) THEN doc[p] ELSE V]
                   ELSE [k \in DOMAIN KeptPos(doc, pr) |-> doc[KeptPos(doc, pr)[k]]]
EffTimes(doc, tms, pr) == IF pr.mask THEN tms ELSE [k \in DOMAIN KeptPos(doc, pr) |-> tms[KeptPos(doc, pr)[k]]]
Eff(c, pr) == [d \in DOMAIN c |-> EffDoc(c[d], pr)]
EffT(c, ts, pr) == [d \in DOMAIN c |-> EffTimes(c[d], ts[d], pr)]

\* ---------------------------------------------------------------- variable window radii
\* window_functions = "variable" with window_args power p (w.var = p, here 0 or 2; w.var = -1: the radius table is used as given).
\* The radius of token t is  ws * f_t^(p-1) / sum_s f_s^p  with f the frequencies of the learned vocabulary in the ORIGINAL corpus
\* (pruned tokens still count in the total), values in (0,1) raised to 1, rounded half-to-even; the mask token gets the smallest
\* un-rounded value of the vocabulary, or 0 when it is nullified.  For p in {0, 2} the value is a rational <<num, den>>:
\*    p = 0 :  ws * N / (n * count_t)          p = 2 :  ws * count_t * N / sum_s count_s^2
Count(c, t) == SumSeq([d \in DOMAIN c |-> Cardinality({p \in DOMAIN c[d] : c[d][p] = t})])
NTok(c) == SumSeq([d \in DOMAIN c |-> Len(c[d])])
Vocab(c, pr) == {t \in KeptTok(pr) : Count(c, t) > 0}
VarVal(w, c, pr, t) == IF w.var = 0 THEN <<w.ws * NTok(c), Cardinality(Vocab(c, pr)) * Count(c, t)>>
                       ELSE <<w.ws * Count(c, t) * NTok(c), SumOver(Vocab(c, pr), LAMBDA s : Count(c, s) * Count(c, s))>>
MinVal(S) == CHOOSE x \in S : \A y \in S : x[1] * y[2] <= y[1] * x[2]
RoundHE(x) == LET q == x[1] \div x[2]  r == x[1] % x[2] IN
              IF x[1] < x[2] THEN 1
              ELSE IF 2 * r < x[2] THEN q ELSE IF 2 * r > x[2] THEN q + 1 ELSE IF q % 2 = 0 THEN q ELSE q + 1
Tie(x) == x[1] >= x[2] /\ 2 * (x[1] % x[2]) = x[2]
VarRadius(w, c, pr, nullify) == [i \in 1..(V + 1) |->
    IF i - 1 = V THEN (IF nullify THEN 0 ELSE RoundHE(MinVal({VarVal(w, c, pr, s) : s \in Vocab(c, pr)})))
    ELSE IF (i - 1) \in Vocab(c, pr) THEN RoundHE(VarVal(w, c, pr, i - 1)) ELSE 1]
Resolve(cfg, c, pr) == [cfg EXCEPT !.wins = [i \in DOMAIN cfg.wins |->
    IF cfg.wins[i].var < 0 THEN cfg.wins[i] ELSE [cfg.wins[i] EXCEPT !.radius = VarRadius(cfg.wins[i], c, pr, cfg.nullify)]]]
\* named precondition of the exact statement: no value lies exactly on a rounding tie (the implementation computes it in floating point)
VarOK(cfg, c, pr) == \A i \in DOMAIN cfg.wins : cfg.wins[i].var >= 0 => \A s \in Vocab(c, pr) : ~Tie(VarVal(cfg.wins[i], c, pr, s))

\* context positions of window w around position p of doc, nearest first; never outside doc
Ctx(doc, p, w) == LET r == w.radius[doc[p] + 1] IN
                  IF w.orient = "after"
                  THEN [j \in 1..Max2(0, Min2(r, Len(doc) - p)) |-> p + j]
                  ELSE [j \in 1..Max2(0, Min2(r, p - 1)) |-> p - j]
\* kernel numerator for the j-th context (1-based), at position q, seen from position p
KNum(cfg, w, doc, tms, p, j, q) ==
   IF j <= w.offset \/ (cfg.nullify /\ doc[q] = V) THEN 0
   ELSE IF TIMED THEN KBase(cfg, AbsV(tms[q] - tms[p])) ELSE KBase(cfg, j)
WinK(cfg, doc, tms, p, w) ==
  LET cx == Ctx(doc, p, w)
  IN WinRec(cfg, w, [j \in DOMAIN cx |-> doc[cx[j]]], [j \in DOMAIN cx |-> KNum(cfg, w, doc, tms, p, j, cx[j])])
EventsAt(cfg, doc, tms, p) ==
  LET ws == IWins(cfg) IN OccEvents(cfg, doc[p], [i \in DOMAIN ws |-> WinK(cfg, doc, tms, p, ws[i])])
EventsDoc(cfg, doc, tms) == FlattenSeq([p \in DOMAIN doc |-> EventsAt(cfg, doc, tms, p)])
Events(cfg, c, ts) == FlattenSeq([d \in DOMAIN c |-> EventsDoc(cfg, c[d], ts[d])])
Cells(cfg, c, ts) == CellsOf(Events(cfg, c, ts))

\* ---------------------------------------------------------------- declarative cross-check
\* un-normalised entry (block i, row a, column b) as an integer over KDen
DeclCell(cfg, c, ts, i, a, b) ==
  LET w == IWins(cfg)[i] IN
  SumSeq([d \in DOMAIN c |-> SumSeq([p \in DOMAIN c[d] |->
     IF c[d][p] # a THEN 0
     ELSE LET cx == Ctx(c[d], p, w)
          IN SumSeq([j \in DOMAIN cx |-> IF c[d][cx[j]] = b THEN w.mix * KNum(cfg, w, c[d], ts[d], p, j, cx[j]) ELSE 0])])])
EC == Eff(corpus, Prunes[pi])
ET == EffT(corpus, times, Prunes[pi])
CF == Resolve(Cfgs[ci], corpus, Prunes[pi])    \* the configuration with its variable radii resolved on this corpus
Refines == done /\ Plain(CF) =>
   LET cfg == CF  cs == Cells(cfg, EC, ET) IN
   \A i \in DOMAIN IWins(cfg), a \in Tok, b \in Tok :
       DeclCell(cfg, EC, ET, i, a, b) = CellInt(cs, <<i, a, b>>, KDen(cfg))
\* with constant radii and no normalisation / offset the 'before' block of a directional window is
\* the transpose of its 'after' block
BeforeIsTransposeOfAfter == done /\ Plain(CF) /\ ~CF.nullify =>
   LET cfg == CF  ws == IWins(cfg) IN
   \A i, k \in DOMAIN ws :
      (ws[i].u = ws[k].u /\ ws[i].orient = "before" /\ ws[k].orient = "after" /\ ConstRadius(ws[i])) =>
         \A a, b \in Tok : DeclCell(cfg, EC, ET, i, a, b) = DeclCell(cfg, EC, ET, k, b, a)
\* every window total is a probability vector when window normalisation is on
WindowMassOne == done /\ CF.wnorm =>
   \A d \in DOMAIN EC : \A p \in DOMAIN EC[d] : MassOne(EventsAt(CF, EC[d], ET[d], p))
\* the timed weights depend on time differences only
Shift(ts, s) == [d \in DOMAIN ts |-> [p \in DOMAIN ts[d] |-> ts[d][p] + s]]
ShiftInvariant == done /\ TIMED => Events(CF, EC, Shift(ET, 1000)) = Events(CF, EC, ET)
\* C14: masking keeps every position, deleting keeps exactly the kept tokens
MaskKeepsPositions == done => \A d \in DOMAIN corpus :
   IF Prunes[pi].mask THEN Len(EC[d]) = Len(corpus[d]) /\ \A p \in DOMAIN corpus[d] : (EC[d][p] = V) = (corpus[d][p] \in Prunes[pi].excluded)
   ELSE Len(EC[d]) = Cardinality({p \in DOMAIN corpus[d] : corpus[d][p] \notin Prunes[pi].excluded}) /\ \A p \in DOMAIN EC[d] : EC[d][p] # V
\* C14: with nullify_mask the mask's row and every column referring to it are zero, and (without normalisation) every other
\* cell equals the cell of the masked computation: only the mask's own contributions are removed
NullifyRemovesOnlyTheMask == done /\ CF.nullify =>
   LET cfg == CF  plain == [cfg EXCEPT !.nullify = FALSE]
       cs == Cells(cfg, EC, ET) IN
   /\ \A k \in DOMAIN cs : k[2] # V /\ k[3] # V
   /\ (Plain(cfg) => \A i \in DOMAIN IWins(cfg), a \in 0..(V - 1), b \in 0..(V - 1) :
                        DeclCell(cfg, EC, ET, i, a, b) = DeclCell(plain, EC, ET, i, a, b))
\* variable radii: every vocabulary token sees at least its neighbour, the nullified mask sees nothing, and with p = 0 (p = 2) a
\* rarer token never has a smaller (larger) radius than a more frequent one
VariableRadiiWellFormed == done =>
   \A i \in DOMAIN Cfgs[ci].wins : Cfgs[ci].wins[i].var >= 0 =>
      LET rad == CF.wins[i].radius  voc == Vocab(corpus, Prunes[pi]) IN
      /\ \A t \in voc : rad[t + 1] >= 1
      /\ (CF.nullify => rad[V + 1] = 0)
      /\ \A s, t \in voc : Count(corpus, s) <= Count(corpus, t) =>
            IF Cfgs[ci].wins[i].var = 0 THEN rad[s + 1] >= rad[t + 1] ELSE rad[s + 1] <= rad[t + 1]

\* ---------------------------------------------------------------- C11: n_iter = 0, epsilon > 0 (integers only)
\* L1-normalise every column, then zero the entries below epsilon = en/ed:  keep iff  P * ed >= en * colsum;  value P / colsum
\* (defined for configurations without window / kernel normalisation, where every cell is one integer over KDen)
PlainVal(cfg, cs, k) == CellInt(cs, k, KDen(cfg))
ColTotal(cfg, cs, b, c) == SumOver({k \in DOMAIN cs : k[1] = b /\ k[3] = c}, LAMBDA k : PlainVal(cfg, cs, k))
Thresh(cfg, cs, e) == {<<k, PlainVal(cfg, cs, k), ColTotal(cfg, cs, k[1], k[3])>> :
                        k \in {kk \in DOMAIN cs : PlainVal(cfg, cs, kk) * e[2] >= e[1] * ColTotal(cfg, cs, kk[1], kk[3])}}
\* consequences stated by C11: every kept entry is at least epsilon and at most 1, every column sums to at most 1
ThreshOK == done /\ Plain(CF) =>
   \A i \in DOMAIN Eps : LET cs == Cells(CF, EC, ET)  th == Thresh(CF, cs, Eps[i]) IN
      /\ \A t \in th : t[2] > 0 /\ t[2] <= t[3] /\ t[2] * Eps[i][2] >= Eps[i][1] * t[3]
      /\ \A t \in th : SumOver({u \in th : u[1][1] = t[1][1] /\ u[1][3] = t[1][3]}, LAMBDA u : u[2]) <= t[3]
ThreshJson(cfg, cs) == LET ws == IWins(cfg) IN
   [i \in DOMAIN Eps |-> SetToSeq({[b |-> BlockLabel(ws[t[1][1]]), r |-> t[1][2], c |-> t[1][3], n |-> t[2], d |-> t[3]] : t \in Thresh(cfg, cs, Eps[i])})]

\* ---------------------------------------------------------------- instance generation
Init == corpus = << <<>> >> /\ times = << <<>> >> /\ ci \in DOMAIN Cfgs /\ pi \in DOMAIN Prunes /\ done = FALSE
LastTime(ts) == IF ts = <<>> THEN 0 ELSE ts[Len(ts)]
AddTok(t, g) == /\ ~done /\ Len(corpus[Len(corpus)]) < MaxLen
                /\ corpus' = [corpus EXCEPT ![Len(corpus)] = Append(@, t)]
                /\ times' = [times EXCEPT ![Len(times)] = Append(@, LastTime(@) + g)]
                /\ UNCHANGED <<ci, pi, done>>
NewDoc == /\ ~done /\ Len(corpus) < MaxDocs
          /\ corpus' = Append(corpus, <<>>) /\ times' = Append(times, <<>>) /\ UNCHANGED <<ci, pi, done>>
NonEmpty(c) == \E d \in DOMAIN c : c[d] # <<>>
\* named precondition: some kept token remains (otherwise the implementation raises 'Token dictionary is empty')
Finish == /\ ~done /\ NonEmpty(Eff(corpus, [Prunes[pi] EXCEPT !.mask = FALSE])) /\ VarOK(Cfgs[ci], corpus, Prunes[pi])
          /\ done' = TRUE /\ UNCHANGED <<corpus, times, ci, pi>>
Next == (\E t \in 0..(V - 1), g \in Gaps : AddTok(t, g)) \/ NewDoc \/ Finish
Spec == Init /\ [][Next]_vars

EmitInv == IF EMIT /\ done
           THEN PrintT(ToJson([corpus |-> corpus, times |-> times, ci |-> ci, pi |-> pi, radii |-> [i \in DOMAIN CF.wins |-> CF.wins[i].radius],
                               cells |-> CellsJson(CF, Cells(CF, EC, ET)),
                               thresh |-> IF Plain(CF) /\ Eps # <<>> THEN ThreshJson(CF, Cells(CF, EC, ET)) ELSE <<>>]))
           ELSE TRUE
====
