---- MODULE SlidingWindow ----
(***************************************************************************)
(* SlidingWindowTransformer and SequentialDifferenceTransformer (C19).     *)
(*                                                                         *)
(* instance = [L, D, width, stride, pad, pv, sample, kernel]               *)
(*   the sequence has L rows and D columns, element (p, d) = (d+1) * 3^p   *)
(*   (p = 0..L-1): every linear combination with small coefficients        *)
(*   identifies the positions it was built from;                           *)
(*   sample = <<"none">> | <<"int", n>> | <<"pair", start, step>> |        *)
(*            <<"list", <<i1, ...>>>>   (0-based indices into the window); *)
(*   kernel = <<"id">> | <<"average">> | <<"differences", start, step,     *)
(*            stride>> | <<"weight", <<w1, ...>>>>.                        *)
(* Documented meaning: after padding both ends with `pad` copies of pv     *)
(* (length Lp), there are ceil((Lp - width + 1) / stride) windows; window  *)
(* i covers padded elements [i*stride, i*stride + width); the kernel       *)
(* matrix is applied to its sampled entries.  Values are rationals         *)
(* <<num, den>>.                                                           *)
(***************************************************************************)
EXTENDS Integers, Sequences, FiniteSets, TLC, Json, Util
CONSTANTS Insts, EMIT
VARIABLES ii, done
vars == <<ii, done>>
inst == Insts[ii]

Elem(p, d) == (d + 1) * Pow(3, p)                                  \* p, d 0-based
Lp(x) == x.L + 2 * x.pad
Padded(x, q, d) == IF q < x.pad \/ q >= x.pad + x.L THEN x.pv ELSE Elem(q - x.pad, d)      \* q 0-based
NWindows(x) == CeilDiv(Lp(x) - x.width + 1, x.stride)
\* sampled positions inside a window (0-based)
Range0(a, b, s) == [k \in 1..Max2(0, CeilDiv(b - a, s)) |-> a + (k - 1) * s]               \* numpy.arange(a, b, s)
Positions(x) == CASE x.sample[1] = "none" -> Range0(0, x.width, 1)
                  [] x.sample[1] = "int"  -> Range0(0, x.width, x.sample[2])
                  [] x.sample[1] = "pair" -> Range0(x.sample[2], x.width, x.sample[3])
                  [] x.sample[1] = "list" -> x.sample[2]
NS(x) == Len(Positions(x))
\* kernel matrix: sequence of rows, each a sequence of NS(x) integer coefficients, and a common denominator
NDiff(n, start, step, stride) == IF n - start - step <= 0 THEN 0 ELSE CeilDiv(n - start - step, stride)
KRows(x) == CASE x.kernel[1] = "id" -> [r \in 1..NS(x) |-> [j \in 1..NS(x) |-> IF j = r THEN 1 ELSE 0]]
              [] x.kernel[1] = "average" -> << [j \in 1..NS(x) |-> 1] >>
              [] x.kernel[1] = "differences" ->
                   LET st == x.kernel[2]  sp == x.kernel[3]  sd == x.kernel[4] IN
                   [r \in 1..NDiff(NS(x), st, sp, sd) |->
                      [j \in 1..NS(x) |-> IF j - 1 = st + (r - 1) * sd THEN -1
                                          ELSE IF j - 1 = st + (r - 1) * sd + sp THEN 1 ELSE 0]]
              [] x.kernel[1] = "weight" -> [r \in 1..NS(x) |-> [j \in 1..NS(x) |-> IF j = r THEN x.kernel[2][r] ELSE 0]]
KDenom(x) == IF x.kernel[1] = "average" THEN NS(x) ELSE 1
\* value (numerator) of output entry (window i, kernel row r, column d)
Out(x, i, r, d) == SumSeq([j \in 1..NS(x) |-> KRows(x)[r][j] * Padded(x, i * x.stride + Positions(x)[j], d)])
WindowRow(x, i) == FlattenSeq([r \in 1..Len(KRows(x)) |-> [d \in 1..x.D |-> Out(x, i, r, d - 1)]])
Windows(x) == [i \in 1..NWindows(x) |-> WindowRow(x, i - 1)]
Valid(x) == /\ Lp(x) >= x.width /\ x.width >= 1
            /\ \A j \in DOMAIN Positions(x) : Positions(x)[j] >= 0 /\ Positions(x)[j] < x.width
            /\ NS(x) >= 1
            /\ \A j, k \in DOMAIN Positions(x) : j # k => Positions(x)[j] # Positions(x)[k]      \* an index list names distinct positions
            /\ (x.kernel[1] = "weight" => Len(x.kernel[2]) = NS(x))
\* every element read lies inside the padded sequence (C10 / C19 "in-range input values only")
InRange == Valid(inst) => \A i \in 0..(NWindows(inst) - 1) : \A j \in DOMAIN Positions(inst) :
              LET q == i * inst.stride + Positions(inst)[j] IN q >= 0 /\ q < Lp(inst)
\* the windows tile the padded sequence as documented: the last window is the last one that fits
LastFits == Valid(inst) => /\ (NWindows(inst) - 1) * inst.stride + inst.width <= Lp(inst)
                           /\ NWindows(inst) * inst.stride + inst.width > Lp(inst)
\* SequentialDifferenceTransformer(stride = s) is width s+1 with differences(0, s, s): x[i+s] - x[i]
SeqDiffOK == (Valid(inst) /\ inst.kernel = <<"differences", 0, inst.width - 1, inst.width - 1>> /\ inst.sample = <<"none">>
              /\ inst.stride = 1 /\ inst.pad = 0 /\ inst.width >= 2) =>
             /\ NWindows(inst) = inst.L - (inst.width - 1)
             /\ \A i \in 0..(NWindows(inst) - 1) : \A d \in 0..(inst.D - 1) :
                   Out(inst, i, 1, d) = Elem(i + inst.width - 1, d) - Elem(i, d)
Init == ii \in DOMAIN Insts /\ done = FALSE
Next == ~done /\ done' = TRUE /\ UNCHANGED ii
Spec == Init /\ [][Next]_vars
EmitInv == IF EMIT /\ done /\ Valid(inst)
           THEN PrintT(ToJson([ii |-> ii, n |-> NWindows(inst), den |-> KDenom(inst), windows |-> Windows(inst)]))
           ELSE TRUE
====
