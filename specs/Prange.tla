---- MODULE Prange ----
(***************************************************************************)
(* The two parallel patterns of the package at the level of schedules      *)
(* (quantifier "schedules" of C04 and C12):                                *)
(*                                                                         *)
(* (1) chunked accumulation (dask.delayed over _generate_chunk_boundaries, *)
(*     then sum): W workers take unprocessed chunks in any order, each     *)
(*     computes the contribution of its own chunk into a private buffer,   *)
(*     and the partial results are added in the order in which workers     *)
(*     finish.  Because chunks share no state and addition of cell counts  *)
(*     is commutative, every schedule ends in the same matrix.             *)
(* (2) numba.prange over rows / strings (bpe_encode_all, column_weights,   *)
(*     sinkhorn_transport_images): workers write out[i] = F(in[i]) into    *)
(*     disjoint slots.                                                     *)
(* TLC explores every interleaving for small numbers of chunks, rows and   *)
(* workers.  The binding to the code is indirect (thread schedules of the  *)
(* real process cannot be driven): pipeline sweeps over n_threads in C04   *)
(* and the pool-size comparison in C12 observe the schedule-independent    *)
(* result this model predicts.                                             *)
(***************************************************************************)
EXTENDS Integers, Sequences, FiniteSets, TLC, Util
CONSTANTS NChunks, NWorkers, Contribution      \* Contribution[c] = vector (sequence) of cell counts produced by chunk c
VARIABLES todo, running, acc, done
vars == <<todo, running, acc, done>>
Cells == DOMAIN Contribution[1]
Zero == [k \in Cells |-> 0]
Add(u, v) == [k \in Cells |-> u[k] + v[k]]
Init == todo = 1..NChunks /\ running = [w \in 1..NWorkers |-> 0] /\ acc = Zero /\ done = {}
Take(w, c) == /\ running[w] = 0 /\ c \in todo
              /\ running' = [running EXCEPT ![w] = c] /\ todo' = todo \ {c} /\ UNCHANGED <<acc, done>>
Finish(w) == /\ running[w] # 0
             /\ acc' = Add(acc, Contribution[running[w]]) /\ done' = done \cup {running[w]}
             /\ running' = [running EXCEPT ![w] = 0] /\ UNCHANGED todo
Next == \E w \in 1..NWorkers : Finish(w) \/ \E c \in todo : Take(w, c)
Spec == Init /\ [][Next]_vars /\ WF_vars(Next)
RECURSIVE Total(_)
Total(S) == IF S = {} THEN Zero ELSE LET c == CHOOSE x \in S : TRUE IN Add(Contribution[c], Total(S \ {c}))
\* at every moment the accumulator holds exactly the chunks that finished: nothing lost, duplicated or mis-credited
Conservation == acc = Total(done)
\* a chunk is never processed twice or by two workers
Exclusive == /\ \A w1, w2 \in 1..NWorkers : (w1 # w2 /\ running[w1] # 0) => running[w1] # running[w2]
             /\ \A w \in 1..NWorkers : running[w] # 0 => running[w] \notin done /\ running[w] \notin todo
Finished == todo = {} /\ \A w \in 1..NWorkers : running[w] = 0
ScheduleIndependent == Finished => acc = Total(1..NChunks)
Terminates == <>Finished
====
