---- MODULE Skipgram ----
(***************************************************************************)
(* SkipgramVectorizer (C06, C01, C02): one row per document, one column    *)
(* per ordered token pair (a, b); entry = summed kernel weight of b        *)
(* occurring within the window of radius r AFTER a in that document        *)
(* (after pruned tokens were deleted).  The fitted columns are the pairs   *)
(* with positive mass in the training corpus, ordered by (index(a),        *)
(* index(b)); transform counts fitted pairs only and keeps the fitted      *)
(* width and one row per input document.                                   *)
(* configuration = [kernel, r, mask = FALSE, tok = pruning record]         *)
(* weights are integers over KDen(cfg) (CoocCore).                         *)
(***************************************************************************)
EXTENDS TokStage, CoocCore
CONSTANTS Cfgs
cfg == Cfgs[ci]
\* weight mass of pair (a, b) in one (pre-processed) document, numerator over KDen
PairMass(doc, f, a, b) ==
  SumSeq([p \in DOMAIN doc |-> IF doc[p] # a THEN 0
          ELSE SumSeq([j \in 1..Max2(0, Min2(f.r, Len(doc) - p)) |-> IF doc[p + j] = b THEN KBase(f, j) ELSE 0])])
Pairs(K) == K \X K
Columns(c, f) == LET K == KeptTok(c, f)  pc == PreC(c, K, f) IN
                 {ab \in Pairs(K) : \E d \in DOMAIN pc : PairMass(pc[d], f, ab[1], ab[2]) > 0}
PairLess(x, y) == x[1] < y[1] \/ (x[1] = y[1] /\ x[2] < y[2])
ColIndex(cols, g) == Cardinality({h \in cols : PairLess(h, g)})
Cells(c, x, f) == LET K == KeptTok(c, f)  cols == Columns(c, f)  px == PreC(x, K, f) IN
                  {<<d, g, PairMass(px[d], f, g[1], g[2])>> : d \in DOMAIN x, g \in cols}
NonZero(S) == {e \in S : e[3] > 0}
\* every training pair with positive mass is a column, so the training row total is the whole window mass
RowTotals == done =>
   LET K == KeptTok(corpus, cfg)  pc == PreC(corpus, K, cfg) IN
   \A d \in DOMAIN corpus :
      SumOver({e \in Cells(corpus, corpus, cfg) : e[1] = d}, LAMBDA e : e[3]) =
      SumSeq([p \in DOMAIN pc[d] |-> SumSeq([j \in 1..Max2(0, Min2(cfg.r, Len(pc[d]) - p)) |-> KBase(cfg, j)])])
Init == GInit
Next == GNext
Spec == Init /\ [][Next]_gvars
SCellsJson(S) == SetToSeq({[d |-> e[1], g |-> e[2], v |-> e[3]] : e \in NonZero(S)})
EmitInv == IF EMIT /\ done
           THEN PrintT(ToJson([corpus |-> corpus, test |-> test, ci |-> ci, den |-> KDen(cfg),
                               kept |-> SetToSeq(KeptTok(corpus, cfg)),
                               colindex |-> SetToSeq({<<g, ColIndex(Columns(corpus, cfg), g)>> : g \in Columns(corpus, cfg)}),
                               train |-> SCellsJson(Cells(corpus, corpus, cfg)),
                               trans |-> SCellsJson(Cells(corpus, test, cfg))]))
           ELSE TRUE
====
