---- MODULE Trace_BPE ----
(***************************************************************************)
(* Code -> spec binding for BytePairEncodingVectorizer (C09): a recorded   *)
(* fit is  [strings (code points, characters above mcc kept as they are),  *)
(*  mcc, vocab, codes (code_list_, as pairs of code numbers), tokens (each  *)
(*  as code points), enc_ft (encodings returned by fit_transform),         *)
(*  tstrings / enc_t (strings and encodings of transform calls)].          *)
(* TLC re-runs the training as the BPE machine - step k merges codes[k] -  *)
(* and decides: well-formed codes, tokens are the concatenation of their   *)
(* pair, budget respected, every encoding decodes to its (clipped) string, *)
(* transform reproduces exactly the replay of the code list, and the       *)
(* encodings returned by fit_transform are that replay too.                *)
(* `drift` reports merges of pairs occurring fewer than twice (model       *)
(* conformance of the greedy choice, not part of the property).            *)
(***************************************************************************)
EXTENDS Integers, Sequences, FiniteSets, TLC, Json, IOUtils, Util
T == JsonDeserialize(IOEnv.TRACE_FILE)
VARIABLES tid, done
X == T[tid]
M == X.mcc
Clip(s) == [i \in DOMAIN s |-> IF s[i] > M THEN 0 ELSE s[i]]
RECURSIVE Contract(_, _, _)
Contract(s, pair, new) ==
   IF Len(s) < 2 THEN s
   ELSE IF s[1] = pair[1] /\ s[2] = pair[2] THEN <<new>> \o Contract(SubSeq(s, 3, Len(s)), pair, new)
   ELSE <<s[1]>> \o Contract(Tail(s), pair, new)
RECURSIVE Replay(_, _)
Replay(s, k) == IF k > Len(X.codes) THEN s ELSE Replay(Contract(s, X.codes[k], M + k), k + 1)
RECURSIVE Expand(_)
Expand(c) == IF c <= M THEN <<c>> ELSE Expand(X.codes[c - M][1]) \o Expand(X.codes[c - M][2])
Decode(e) == FlattenSeq([i \in DOMAIN e |-> Expand(e[i])])
Valid(e) == \A i \in DOMAIN e : e[i] >= 0 /\ e[i] <= M + Len(X.codes)
Clauses ==
   (IF \E k \in DOMAIN X.codes : \E c \in {X.codes[k][1], X.codes[k][2]} : ~(c >= 0 /\ (c <= M \/ c < M + k))
    THEN {"code_list_not_well_formed"} ELSE {})
   \cup (IF Len(X.codes) > X.vocab \/ Len(X.tokens) # Len(X.codes) THEN {"more_tokens_than_max_vocab_size"} ELSE {})
   \cup (IF \E k \in DOMAIN X.tokens : k <= Len(X.codes) /\ X.tokens[k] # Expand(M + k) THEN {"token_is_not_concatenation_of_its_pair"} ELSE {})
   \cup (IF \E i \in DOMAIN X.enc_ft : ~Valid(X.enc_ft[i]) \/ Decode(X.enc_ft[i]) # Clip(X.strings[i]) THEN {"fit_transform_encoding_not_lossless"} ELSE {})
   \cup (IF \E i \in DOMAIN X.enc_t : ~Valid(X.enc_t[i]) \/ Decode(X.enc_t[i]) # Clip(X.tstrings[i]) THEN {"transform_encoding_not_lossless"} ELSE {})
   \cup (IF \E i \in DOMAIN X.enc_t : X.enc_t[i] # Replay(Clip(X.tstrings[i]), 1) THEN {"transform_is_not_the_replay_of_the_code_list"} ELSE {})
   \cup (IF \E i \in DOMAIN X.enc_ft : X.enc_ft[i] # Replay(Clip(X.strings[i]), 1) THEN {"fit_transform_differs_from_transform_of_training_strings"} ELSE {})
Init == tid \in DOMAIN T /\ done = FALSE
Next == ~done /\ done' = TRUE /\ UNCHANGED tid
Spec == Init /\ [][Next]_<<tid, done>>
Verdict == done => PrintT(ToJson([verdict |-> tid, clauses |-> Clauses]))
====
