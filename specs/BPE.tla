---- MODULE BPE ----
(***************************************************************************)
(* Byte-pair encoding (C09, C10).                                          *)
(* Codes: a character is its code point c <= mcc (max_char_code_); a       *)
(* character above mcc is code 0; learned code k (k = 1, 2, ...) is the    *)
(* number mcc + k and stands for the pair codes[k].                        *)
(*                                                                         *)
(* Contract(seq, pair, new) - left-to-right non-overlapping replacement -  *)
(* is given twice: declaratively, and as the loop of contract_pair /       *)
(* contract_and_count_pairs with its variables (i, skip, the output        *)
(* index), where i may be UNASSIGNED when it is read after a loop that     *)
(* never ran (arrays of length <= 1).                                      *)
(* Training is the nondeterministic machine Merge(pair): any pair may be   *)
(* merged (the implementation's greedy choice is a refinement checked      *)
(* separately); in every reachable state the encodings decode to the       *)
(* original strings and replaying the code list on the strings reproduces  *)
(* the encodings.                                                          *)
(***************************************************************************)
EXTENDS Integers, Sequences, FiniteSets, TLC, Json, Util
CONSTANTS Alphabet,     \* character codes used by the bounded model
          MaxLen, MaxStrings, MaxMerges,
          FIXED         \* the tail of the contraction loop guards the read of i
VARIABLES strings, codes, enc, phase
vars == <<strings, codes, enc, phase>>
MCC == Max(Alphabet)

\* ---------------------------------------------------------------- contraction
RECURSIVE Contract(_, _, _)
Contract(s, pair, new) ==
   IF Len(s) < 2 THEN s
   ELSE IF s[1] = pair[1] /\ s[2] = pair[2] THEN <<new>> \o Contract(SubSeq(s, 3, Len(s)), pair, new)
   ELSE <<s[1]>> \o Contract(Tail(s), pair, new)
\* the loop of contract_pair: state [i, skip, out, oob]; i = -1 stands for "never assigned"
UNASSIGNED == -1
RECURSIVE Loop(_, _, _, _)
Loop(s, pair, new, st) ==          \* st.i = next value of the loop variable (0-based), st.last = value of i after the loop
   IF st.i >= Len(s) - 1 THEN st
   ELSE IF st.skip THEN Loop(s, pair, new, [st EXCEPT !.skip = FALSE, !.i = @ + 1, !.last = st.i])
   ELSE IF s[st.i + 1] = pair[1] /\ s[st.i + 2] = pair[2]
        THEN Loop(s, pair, new, [st EXCEPT !.out = Append(@, new), !.skip = TRUE, !.i = @ + 1, !.last = st.i])
        ELSE Loop(s, pair, new, [st EXCEPT !.out = Append(@, s[st.i + 1]), !.i = @ + 1, !.last = st.i])
ContractAlg(s, pair, new) ==
   LET st == Loop(s, pair, new, [i |-> 0, skip |-> FALSE, out |-> <<>>, last |-> UNASSIGNED])
       \* if not skip_char: new_char_list[...] = char_list[i + 1]
       tailRead == ~st.skip /\ (IF FIXED THEN Len(s) >= 1 ELSE TRUE)
       idx == IF FIXED /\ st.last = UNASSIGNED THEN 0 ELSE st.last + 1          \* 0-based index read by the tail
       bad == tailRead /\ ((st.last = UNASSIGNED /\ ~FIXED) \/ idx < 0 \/ idx >= Len(s))
   IN [out |-> IF tailRead /\ ~bad THEN Append(st.out, s[idx + 1]) ELSE st.out, bad |-> bad]
\* C10: the loop never reads an unassigned variable or an index outside the array; and it computes Contract
ContractionSafe == \A i \in DOMAIN enc : \A p \in (Alphabet \X Alphabet) :
                      LET r == ContractAlg(enc[i], p, MCC + 100) IN ~r.bad /\ r.out = Contract(enc[i], p, MCC + 100)

\* ---------------------------------------------------------------- decoding / replay
RECURSIVE Expand(_, _)
Expand(c, cs) == IF c <= MCC THEN <<c>> ELSE Expand(cs[c - MCC][1], cs) \o Expand(cs[c - MCC][2], cs)
Decode(e, cs) == FlattenSeq([i \in DOMAIN e |-> Expand(e[i], cs)])
RECURSIVE Replay(_, _, _)
Replay(s, cs, k) == IF k > Len(cs) THEN s ELSE Replay(Contract(s, cs[k], MCC + k), cs, k + 1)
Lossless == \A i \in DOMAIN strings : Decode(enc[i], codes) = strings[i]
Replayable == \A i \in DOMAIN strings : Replay(strings[i], codes, 1) = enc[i]
WellFormed == \A k \in DOMAIN codes : \A c \in {codes[k][1], codes[k][2]} : c <= MCC \/ c < MCC + k
\* a pair occurring at least twice (what the implementation requires of a merge)
PairCount(p) == SumSeq([i \in DOMAIN enc |-> Cardinality({q \in 1..(Len(enc[i]) - 1) : enc[i][q] = p[1] /\ enc[i][q + 1] = p[2]})])

Init == strings = << <<>> >> /\ codes = <<>> /\ enc = << <<>> >> /\ phase = "build"
AddChar(c) == /\ phase = "build" /\ Len(strings[Len(strings)]) < MaxLen
              /\ strings' = [strings EXCEPT ![Len(strings)] = Append(@, c)] /\ enc' = strings' /\ UNCHANGED <<codes, phase>>
NewString == /\ phase = "build" /\ Len(strings) < MaxStrings
             /\ strings' = Append(strings, <<>>) /\ enc' = strings' /\ UNCHANGED <<codes, phase>>
Train == phase = "build" /\ phase' = "train" /\ UNCHANGED <<strings, codes, enc>>
Merge(p) == /\ phase = "train" /\ Len(codes) < MaxMerges /\ PairCount(p) >= 1
            /\ codes' = Append(codes, p)
            /\ enc' = [i \in DOMAIN enc |-> Contract(enc[i], p, MCC + Len(codes) + 1)]
            /\ UNCHANGED <<strings, phase>>
Next == (\E c \in Alphabet : AddChar(c)) \/ NewString \/ Train
        \/ (\E p \in ((Alphabet \cup {MCC + k : k \in 1..MaxMerges}) \X (Alphabet \cup {MCC + k : k \in 1..MaxMerges})) : Merge(p))
Spec == Init /\ [][Next]_vars
====
