---- MODULE Chunking ----
(***************************************************************************)
(* BaseCooccurrenceVectorizer._generate_chunk_boundaries (and the          *)
(* multiset override, which differs only in how a document's size is       *)
(* computed): the list of documents is cut into contiguous chunks of       *)
(* roughly total/n_threads tokens that are processed independently and     *)
(* summed.  C04 needs: the chunks partition the document list (no document *)
(* skipped or repeated), whatever the sizes and the thread count.          *)
(* The loop is transcribed with its three variables; Partition is checked  *)
(* in the final state for every size vector in the bounded model.          *)
(***************************************************************************)
EXTENDS Integers, Sequences, FiniteSets, TLC, Json, Util
CONSTANTS MaxDocs, MaxSize, MaxThreads, EMIT
VARIABLES sizes, nthreads, i, lastEnd, lastCum, cum, chunks, pc
vars == <<sizes, nthreads, i, lastEnd, lastCum, cum, chunks, pc>>

Total(s) == SumSeq(s)
ChunkSize == CeilDiv(Total(sizes), nthreads)          \* np.ceil(cumulative_sizes[-1] / n_threads)
Init == /\ sizes \in UNION {[1..n -> 0..MaxSize] : n \in 1..MaxDocs}
        /\ nthreads \in 1..MaxThreads
        /\ i = 1 /\ lastEnd = 0 /\ lastCum = 0 /\ cum = 0 /\ chunks = <<>> /\ pc = "loop"
\* for chunk_index, size in enumerate(cumulative_sizes):   (chunk_index = i - 1)
Step == /\ pc = "loop" /\ i <= Len(sizes)
        /\ LET c == cum + sizes[i] IN
             /\ cum' = c
             /\ IF c - lastCum >= ChunkSize
                THEN /\ chunks' = Append(chunks, <<lastEnd, i - 1>>)
                     /\ lastEnd' = i - 1 /\ lastCum' = c
                ELSE UNCHANGED <<chunks, lastEnd, lastCum>>
        /\ i' = i + 1 /\ UNCHANGED <<sizes, nthreads, pc>>
\* chunks.append((last_chunk_end, len(data)))
Close == /\ pc = "loop" /\ i > Len(sizes)
         /\ chunks' = Append(chunks, <<lastEnd, Len(sizes)>>) /\ pc' = "done"
         /\ UNCHANGED <<sizes, nthreads, i, lastEnd, lastCum, cum>>
Next == Step \/ Close
Spec == Init /\ [][Next]_vars

\* contiguous, ordered, starting at 0 and ending at len(data): every document in exactly one chunk
Partition == pc = "done" =>
   /\ chunks # <<>> /\ chunks[1][1] = 0 /\ chunks[Len(chunks)][2] = Len(sizes)
   /\ \A k \in DOMAIN chunks : chunks[k][1] <= chunks[k][2]
   /\ \A k \in 1..(Len(chunks) - 1) : chunks[k][2] = chunks[k + 1][1]
Covered == pc = "done" =>
   \A d \in 0..(Len(sizes) - 1) : Cardinality({k \in DOMAIN chunks : chunks[k][1] <= d /\ d < chunks[k][2]}) = 1
\* loop invariant: everything before lastEnd is already in a chunk
LoopInv == pc = "loop" => /\ lastEnd <= i - 1 /\ lastCum <= cum
                          /\ (chunks # <<>> => chunks[Len(chunks)][2] = lastEnd)
EmitInv == IF EMIT /\ pc = "done" THEN PrintT(ToJson([sizes |-> sizes, n |-> nthreads, chunks |-> chunks])) ELSE TRUE
====
