---- MODULE Histogram ----
(***************************************************************************)
(* HistogramVectorizer (C20).  instance =                                  *)
(*   [train : sequences of integers, n (n_components), strategy :          *)
(*    "uniform" | "quantile", lo, hi (absolute_range; NegInf / PosInf are  *)
(*    sentinels), outlier : BOOLEAN, test : sequences of integers]         *)
(* Uniform training values are multiples of n so that the n equal-width    *)
(* breaks between the training minimum and maximum are integers.           *)
(* Transcribed: the training filter (strictly inside the absolute range),  *)
(* interval_range / find_bin_boundaries (the cumulative-sum quantile       *)
(* rule), expand_boundaries, add_outier_bins; bins are right-closed        *)
(* intervals <<left, right>>.                                              *)
(* Properties: Partition (gap-free, non-overlapping, increasing, spanning  *)
(* exactly the absolute range) and Conservation (row total = number of     *)
(* values in (lo, hi]).                                                    *)
(***************************************************************************)
EXTENDS Integers, Sequences, FiniteSets, TLC, Json, Util
CONSTANTS Insts, EMIT
VARIABLES ii, done
vars == <<ii, done>>
NegInf == -1000000
PosInf == 1000000
x == Insts[ii]
Flat(c) == FlattenSeq(c)
Kept(t) == SelectSeq(Flat(t.train), LAMBDA v : v > t.lo /\ v < t.hi)               \* fit: strictly inside the range
MinOf(s) == Min({s[i] : i \in DOMAIN s})
MaxOf(s) == Max({s[i] : i \in DOMAIN s})
\* uniform: n equal-width right-closed intervals from the training minimum to the training maximum
UniformBreaks(t) == LET k == Kept(t)  a == MinOf(k)  b == MaxOf(k) IN [j \in 1..(t.n + 1) |-> a + ((j - 1) * (b - a)) \div t.n]
UniformExact(t) == (MaxOf(Kept(t)) - MinOf(Kept(t))) % t.n = 0
\* quantile: find_bin_boundaries - sort, cumulative sum, start a new bin whenever the running sum passes the
\* next multiple of total/n AND the value is larger than the previous break  (compared as n*csum >= total*len)
SortedVals(t) == SortSeq(Kept(t), <)
RECURSIVE QIdx(_, _, _, _)
QIdx(s, i, idx, t) ==
   IF i > Len(s) THEN idx
   ELSE LET cs == SumSeq(SubSeq(s, 1, i))  tot == SumSeq(s) IN
        IF cs * t.n >= tot * Len(idx) /\ s[i] > s[idx[Len(idx)]] THEN QIdx(s, i + 1, Append(idx, i), t)
        ELSE QIdx(s, i + 1, idx, t)
QuantileBreaks(t) == LET s == SortedVals(t)  idx == QIdx(s, 2, <<1>>, t) IN [j \in DOMAIN idx |-> s[idx[j]]]
Breaks(t) == IF t.strategy = "uniform" THEN UniformBreaks(t) ELSE QuantileBreaks(t)
Base(t) == LET b == Breaks(t) IN [j \in 1..(Len(b) - 1) |-> <<b[j], b[j + 1]>>]
Expand(iv, t) == LET a == IF iv[1][1] > t.lo THEN [iv EXCEPT ![1] = <<t.lo, iv[1][2]>>] ELSE iv
                     m == Len(a)
                 IN IF a[m][2] < t.hi THEN [a EXCEPT ![m] = <<a[m][1], t.hi>>] ELSE a
Outliers(iv, t) == LET a == IF iv[1][1] > t.lo THEN << <<t.lo, iv[1][1]>> >> \o iv ELSE iv
                       m == Len(a)
                   IN IF a[m][2] < t.hi THEN Append(a, <<a[m][2], t.hi>>) ELSE a
Bins(t) == IF t.outlier THEN Outliers(Base(t), t) ELSE Expand(Base(t), t)
Row(t, s) == [j \in DOMAIN Bins(t) |-> Cardinality({p \in DOMAIN s : s[p] > Bins(t)[j][1] /\ s[p] <= Bins(t)[j][2]})]
InRange(t, s) == Cardinality({p \in DOMAIN s : s[p] > t.lo /\ s[p] <= t.hi})
Valid(t) == /\ Len(Kept(t)) >= 2 /\ MinOf(Kept(t)) < MaxOf(Kept(t))
            /\ (t.strategy = "uniform" => UniformExact(t))
            /\ (t.strategy = "quantile" => MinOf(Kept(t)) >= 0 /\ Len(QuantileBreaks(t)) >= 2)
Partition == Valid(x) =>
   LET b == Bins(x) IN
   /\ b[1][1] = x.lo /\ b[Len(b)][2] = x.hi
   /\ \A j \in DOMAIN b : b[j][1] < b[j][2]
   /\ \A j \in 1..(Len(b) - 1) : b[j][2] = b[j + 1][1]
Conservation == Valid(x) => \A d \in DOMAIN x.test : SumSeq(Row(x, x.test[d])) = InRange(x, x.test[d])
Init == ii \in DOMAIN Insts /\ done = FALSE
Next == ~done /\ done' = TRUE /\ UNCHANGED ii
Spec == Init /\ [][Next]_vars
EmitInv == IF EMIT /\ done /\ Valid(x)
           THEN PrintT(ToJson([ii |-> ii, bins |-> Bins(x), rows |-> [d \in DOMAIN x.test |-> Row(x, x.test[d])],
                               trainrows |-> [d \in DOMAIN x.train |-> Row(x, x.train[d])]]))
           ELSE TRUE
====
