---- MODULE EdgeList ----
(***************************************************************************)
(* EdgeListVectorizer (C06, C01, C02): entry (r, c) = sum of the values of *)
(* all edges labelled (r, c).  Learned dictionaries are the sorted unique  *)
(* row / column labels of the training edges (their union with             *)
(* joint_space); a supplied dictionary is used as given and edges with a   *)
(* label outside it are ignored.  The matrix shape is fixed at fit time    *)
(* (max index + 1 on each axis) and transform keeps it whatever labels     *)
(* occur in its input.                                                     *)
(* configuration = [joint : BOOLEAN, rowdict, coldict]  where a dictionary *)
(* is <<>> (learn) or a sequence of <<label, index>> pairs.                *)
(***************************************************************************)
EXTENDS Integers, Sequences, FiniteSets, TLC, Json, Util
CONSTANTS L,          \* labels are 0..L-1, label L never occurs in training
          Vals, MaxEdges, TMaxEdges, Cfgs, EMIT
VARIABLES edges, test, phase, ci
vars == <<edges, test, phase, ci>>
Lab == 0..(L - 1)
LabT == 0..L
done == phase = "done"
cfg == Cfgs[ci]
Learned(S) == {<<x, Cardinality({y \in S : y < x})>> : x \in S}             \* sorted unique labels -> 0..n-1
AsMap(d) == {<<d[i][1], d[i][2]>> : i \in DOMAIN d}
RowLabels(e) == {e[i][1] : i \in DOMAIN e}
ColLabels(e) == {e[i][2] : i \in DOMAIN e}
RowDict(e, f) == IF f.joint
                 THEN (IF f.rowdict # <<>> THEN AsMap(f.rowdict) ELSE IF f.coldict # <<>> THEN AsMap(f.coldict)
                       ELSE Learned(RowLabels(e) \cup ColLabels(e)))
                 ELSE (IF f.rowdict # <<>> THEN AsMap(f.rowdict) ELSE Learned(RowLabels(e)))
ColDict(e, f) == IF f.joint THEN RowDict(e, f)
                 ELSE (IF f.coldict # <<>> THEN AsMap(f.coldict) ELSE Learned(ColLabels(e)))
Dom(d) == {p[1] : p \in d}
Ix(d, x) == (CHOOSE p \in d : p[1] = x)[2]
Shape(e, f) == << Max({p[2] : p \in RowDict(e, f)}) + 1, Max({p[2] : p \in ColDict(e, f)}) + 1 >>
\* cell of the matrix built from edge list x with the dictionaries fitted on e
Cell(e, x, f, r, c) == SumSeq([i \in DOMAIN x |-> IF x[i][1] = r /\ x[i][2] = c THEN x[i][3] ELSE 0])
Cells(e, x, f) == {<<r, c, Cell(e, x, f, r, c)>> : r \in Dom(RowDict(e, f)), c \in Dom(ColDict(e, f))}
NonZero(S) == {t \in S : t[3] # 0}
\* nothing is lost: the grand total of the matrix is the sum over the edges with both labels known
Conservation == done =>
   SumOver(Cells(edges, test, cfg), LAMBDA t : t[3]) =
   SumSeq([i \in DOMAIN test |-> IF test[i][1] \in Dom(RowDict(edges, cfg)) /\ test[i][2] \in Dom(ColDict(edges, cfg))
                                  THEN test[i][3] ELSE 0])
Valid(f) == ~(f.joint /\ f.rowdict # <<>> /\ f.coldict # <<>>)
Init == edges = <<>> /\ test = <<>> /\ phase = "train" /\ ci \in {i \in DOMAIN Cfgs : Valid(Cfgs[i])}
AddE(r, c, v) == /\ phase = "train" /\ Len(edges) < MaxEdges
                 /\ edges' = Append(edges, <<r, c, v>>) /\ UNCHANGED <<test, phase, ci>>
StartTest == phase = "train" /\ edges # <<>> /\ phase' = "test" /\ UNCHANGED <<edges, test, ci>>
AddT(r, c, v) == /\ phase = "test" /\ Len(test) < TMaxEdges
                 /\ test' = Append(test, <<r, c, v>>) /\ UNCHANGED <<edges, phase, ci>>
Finish == phase = "test" /\ test # <<>> /\ phase' = "done" /\ UNCHANGED <<edges, test, ci>>
Next == (\E r, c \in Lab, v \in Vals : AddE(r, c, v)) \/ StartTest \/ (\E r, c \in LabT, v \in Vals : AddT(r, c, v)) \/ Finish
Spec == Init /\ [][Next]_vars
CJ(S) == SetToSeq({[r |-> t[1], c |-> t[2], v |-> t[3]] : t \in NonZero(S)})
EmitInv == IF EMIT /\ done
           THEN PrintT(ToJson([edges |-> edges, test |-> test, ci |-> ci, shape |-> Shape(edges, cfg),
                               rows |-> SetToSeq(RowDict(edges, cfg)), cols |-> SetToSeq(ColDict(edges, cfg)),
                               train |-> CJ(Cells(edges, edges, cfg)), trans |-> CJ(Cells(edges, test, cfg))]))
           ELSE TRUE
====
