---- MODULE Util ----
(* Small arithmetic / sequence helpers shared by the functional specifications. *)
EXTENDS Integers, Sequences, FiniteSets, FiniteSetsExt, Functions, SequencesExt

Max2(a, b) == IF a > b THEN a ELSE b
Min2(a, b) == IF a < b THEN a ELSE b
AbsV(x) == IF x < 0 THEN -x ELSE x
RECURSIVE Pow(_, _)
Pow(b, n) == IF n = 0 THEN 1 ELSE b * Pow(b, n - 1)
RECURSIVE Gcd(_, _)
Gcd(a, b) == IF b = 0 THEN a ELSE Gcd(b, a % b)
SumSeq(s) == FoldFunction(LAMBDA x, acc : x + acc, 0, s)
SumOver(S, F(_)) == FoldSet(LAMBDA x, acc : F(x) + acc, 0, S)
SumFun(f) == FoldFunction(LAMBDA x, acc : x + acc, 0, f)
CeilDiv(a, b) == (a + b - 1) \div b
\* all sequences over S of length 0..n
SeqsUpTo(S, n) == UNION {[1..k -> S] : k \in 0..n}
\* number of indices of s holding x
CountIn(s, x) == Cardinality({i \in DOMAIN s : s[i] = x})
RevSeq(s) == [i \in 1..Len(s) |-> s[Len(s) + 1 - i]]
====
