---- MODULE InfoWeight ----
(***************************************************************************)
(* Information weights (C17).                                              *)
(*                                                                         *)
(* (1) Encodings.  A count matrix is handed over as a list of triples      *)
(* <<row, col, value>> (COO); many lists denote the same matrix:           *)
(* reordering, explicitly stored zeros, an entry split into duplicates.    *)
(* Behaviours of these re-encodings keep Abs(enc) = Abs(enc0) (TLC), and   *)
(* the weights computed by the implementation must be constant along them, *)
(* whatever storage format carries the triples.  PermRows / PermCols are   *)
(* tracked separately: weights are invariant under the former and permute  *)
(* with the latter.                                                        *)
(*                                                                         *)
(* (2) Dyadic columns.  With the exact prior the weight of column c is     *)
(*   KL(post || base),  base_i = m_i / T,                                  *)
(*   post_i = (x_i + s * base_i) / (X + s)                                 *)
(* (x = the column, m = row masses, T = total mass, X = column mass,       *)
(* s = prior_strength).  It needs ln - except when every ratio             *)
(* post_i / base_i is a power of two, 2^k_i: then  weight / ln 2  =        *)
(* sum_i post_i * k_i  is a rational.  TLC SEARCHES small integer matrices *)
(* and prior strengths for columns with this property and emits them with  *)
(* the exact value <<num, den>>.                                           *)
(***************************************************************************)
EXTENDS Integers, Sequences, FiniteSets, TLC, Json, Util
CONSTANTS MODE,          \* "encodings" | "dyadic"
          Bases, NR, NC, MaxLen, MaxSteps,          \* encodings
          DRows, DMax, Strengths,                   \* dyadic search
          EMIT
VARIABLES bi, enc, steps, mat, s
vars == <<bi, enc, steps, mat, s>>
view == <<bi, enc, mat, s>>

\* ---------------------------------------------------------------- (1) encodings
Abs(e) == [r \in 1..NR |-> [c \in 1..NC |-> SumSeq([i \in DOMAIN e |-> IF e[i][1] = r /\ e[i][2] = c THEN e[i][3] ELSE 0])]]
Swap(i) == i < Len(enc) /\ enc' = [enc EXCEPT ![i] = enc[i + 1], ![i + 1] = enc[i]]
AddZero(r, c) == Len(enc) < MaxLen /\ enc' = Append(enc, <<r, c, 0>>)
SplitEntry(i, w) == /\ Len(enc) < MaxLen /\ w >= 1 /\ w < enc[i][3]
                    /\ enc' = SubSeq(enc, 1, i - 1) \o << <<enc[i][1], enc[i][2], w>>, <<enc[i][1], enc[i][2], enc[i][3] - w>> >>
                               \o SubSeq(enc, i + 1, Len(enc))
SameMatrix == MODE = "encodings" => Abs(enc) = Abs(Bases[bi])
NonNegative == MODE = "encodings" => \A i \in DOMAIN enc : enc[i][3] >= 0

\* ---------------------------------------------------------------- (2) dyadic columns
\* mat = <<x, y>>: the column of interest and a filler column (row masses m = x + y)
X1 == mat[1]
M1 == [i \in DOMAIN mat[1] |-> mat[1][i] + mat[2][i]]
TT == SumSeq(M1)
XX == SumSeq(X1)
Ks == (-5)..5
\* post_i / base_i = (x_i T + s m_i) / ((X + s) m_i)  =  2^k ?
IsPow(i, k) == IF k >= 0 THEN X1[i] * TT + s * M1[i] = (XX + s) * M1[i] * Pow(2, k)
               ELSE (X1[i] * TT + s * M1[i]) * Pow(2, -k) = (XX + s) * M1[i]
KOf(i) == CHOOSE k \in Ks : IsPow(i, k)
Dyadic == /\ \A i \in DOMAIN X1 : M1[i] > 0 /\ \E k \in Ks : IsPow(i, k)
          /\ \E i \in DOMAIN X1 : KOf(i) # 0                      \* not the trivial column proportional to the row masses
\* weight / ln 2 = sum_i post_i k_i = sum_i (x_i T + s m_i) k_i / ((X + s) T)
WNum == SumSeq([i \in DOMAIN X1 |-> (X1[i] * TT + s * M1[i]) * KOf(i)])
WDen == (XX + s) * TT
\* Gibbs' inequality on the searched family: the divergence is never negative
NonNegativeKL == (MODE = "dyadic" /\ Dyadic) => WNum >= 0

Init == IF MODE = "encodings"
        THEN bi \in DOMAIN Bases /\ enc = Bases[bi] /\ steps = 0 /\ mat = <<>> /\ s = 0
        ELSE /\ bi = 0 /\ enc = <<>> /\ steps = 0 /\ s \in Strengths
             /\ mat \in [1..2 -> [1..DRows -> 0..DMax]]
Next == /\ MODE = "encodings" /\ steps < MaxSteps /\ steps' = steps + 1 /\ UNCHANGED <<bi, mat, s>>
        /\ \/ \E i \in DOMAIN enc : Swap(i) \/ \E w \in 1..2 : SplitEntry(i, w)
           \/ \E r \in 1..NR, c \in 1..NC : AddZero(r, c)
Spec == Init /\ [][Next]_vars
EmitInv == IF ~EMIT THEN TRUE
           ELSE IF MODE = "encodings" THEN PrintT(ToJson([bi |-> bi, enc |-> enc]))
           ELSE IF Dyadic THEN PrintT(ToJson([x |-> X1, y |-> mat[2], s |-> s, k |-> [i \in DOMAIN X1 |-> KOf(i)], w |-> <<WNum, WDen>>]))
           ELSE TRUE
====
