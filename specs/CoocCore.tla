---- MODULE CoocCore ----
(***************************************************************************)
(* Shared part of the co-occurrence specifications (Cooc, CoocMulti,       *)
(* CoocNgram, Tree): window expansion and column blocks, kernels as exact  *)
(* integers over a fixed denominator, per-occurrence normalisation, and    *)
(* the fold of the event stream into the matrix.  No state.                *)
(*                                                                         *)
(* configuration = [kernel, wnorm, nullify,                                *)
(*    wins : <<[orient, radius : <<r_0..r_V>>, offset, knorm, mix]>>]      *)
(* kernels: "flat", "harmonic" (1/k), "geometric" (2^-k, i.e. power 1/2)   *)
(* where k is the distance handed in by the caller (token distance, time   *)
(* difference, multiset distance or walk length).                          *)
(***************************************************************************)
EXTENDS Integers, Sequences, FiniteSets, TLC, Json, Util

\* internal windows: "directional" expands to (before, after) with shared parameters;
\* each internal window owns one column block, in this order (_set_column_dicts)
Expand(w, u) == IF w.orient = "directional"
                THEN << [w EXCEPT !.orient = "before"] @@ [u |-> u], [w EXCEPT !.orient = "after"] @@ [u |-> u] >>
                ELSE << w @@ [u |-> u] >>
IWins(cfg) == FlattenSeq([i \in DOMAIN cfg.wins |-> Expand(cfg.wins[i], i - 1)])
BlockLabel(w) == (IF w.orient = "before" THEN "pre_" ELSE "post_") \o ToString(w.u)

HDen == 60                                   \* lcm(1..5): harmonic distances <= 5
GExp == 6                                    \* geometric distances <= 6
KDen(cfg) == CASE cfg.kernel = "flat" -> 1 [] cfg.kernel = "harmonic" -> HDen [] cfg.kernel = "geometric" -> Pow(2, GExp)
KBase(cfg, k) == CASE cfg.kernel = "flat" -> 1
                   [] cfg.kernel = "harmonic" -> HDen \div k
                   [] cfg.kernel = "geometric" -> Pow(2, GExp - k)

\* one window of one occurrence: context tokens (nearest first) and kernel numerators
WinRec(cfg, w, cols, ks) ==
  LET s == SumSeq(ks)
  IN [cols |-> cols, ks |-> ks, s |-> s, d |-> IF w.knorm THEN (IF s > 0 THEN s ELSE 1) ELSE KDen(cfg)]

\* events of one occurrence of `row` given its window records wk (one per internal window):
\* <<block, row, col, num, den>>, zero weights dropped; with normalize_windows the weights of
\* all windows of the occurrence are divided by their total  T = tnum / pd = sum_i mix_i s_i / d_i
OccEvents(cfg, row, wk) ==
  LET ws == IWins(cfg)
      pd == FoldFunction(LAMBDA x, acc : x * acc, 1, [i \in DOMAIN ws |-> wk[i].d])
      tnum == SumSeq([i \in DOMAIN ws |-> ws[i].mix * wk[i].s * (pd \div wk[i].d)])
      norm == cfg.wnorm /\ tnum > 0
      ev(i) == [j \in DOMAIN wk[i].cols |->
                  IF norm THEN <<i, row, wk[i].cols[j], ws[i].mix * wk[i].ks[j] * (pd \div wk[i].d), tnum>>
                  ELSE <<i, row, wk[i].cols[j], ws[i].mix * wk[i].ks[j], wk[i].d>>]
  IN FlattenSeq([i \in DOMAIN ws |-> SelectSeq(ev(i), LAMBDA e : e[4] > 0)])

\* matrix as a map  <<block, row, col>> -> (den -> sum of num)
CellsOf(ev) ==
  LET keys == {<<ev[k][1], ev[k][2], ev[k][3]>> : k \in DOMAIN ev}
  IN [key \in keys |->
        LET mine == {k \in DOMAIN ev : <<ev[k][1], ev[k][2], ev[k][3]>> = key}
            dens == {ev[k][5] : k \in mine}
        IN [d \in dens |-> SumOver({k \in mine : ev[k][5] = d}, LAMBDA k : ev[k][4])]]
CellInt(cs, key, den) == IF key \in DOMAIN cs THEN (IF den \in DOMAIN cs[key] THEN cs[key][den] ELSE 0) ELSE 0
Plain(cfg) == ~cfg.wnorm /\ \A i \in DOMAIN cfg.wins : ~cfg.wins[i].knorm
ConstRadius(w) == \A t \in DOMAIN w.radius : w.radius[t] = w.radius[1]
CellsJson(cfg, cs) == LET ws == IWins(cfg) IN
   SetToSeq({[b |-> BlockLabel(ws[k[1]]), r |-> k[2], c |-> k[3],
              v |-> SetToSeq({<<cs[k][d], d>> : d \in DOMAIN cs[k]})] : k \in DOMAIN cs})
\* total mass of the events of one occurrence is 1 under window normalisation
MassOne(ev) == ev = <<>> \/ SumSeq([k \in DOMAIN ev |-> ev[k][4]]) = ev[1][5]
====
