---- MODULE Ngram ----
(***************************************************************************)
(* NgramVectorizer (properties C06, C01, C02, C14) and the '+' of two      *)
(* fitted unigram models.                                                  *)
(*                                                                         *)
(* configuration = [n, mode : "exact" | "subgrams", mask : BOOLEAN,        *)
(*    tok : token-level pruning [minOcc, maxOcc, minDocOcc, maxDocOcc,     *)
(*                               excluded, maxUnique]  (-1 = None);        *)
(*    the numeric bounds are applied a second time to the n-grams]         *)
(* Stage 1: kept token vocabulary; pruned tokens are deleted (mask=FALSE)  *)
(*          or replaced in place by the mask index V (mask=TRUE).          *)
(* Stage 2: the n-grams (runs of n consecutive tokens of the stage-1       *)
(*          sequences; sizes 1..n in subgrams mode) meeting the same       *)
(*          numeric bounds are the columns, in sorted order.               *)
(* Cell(i, g) = number of occurrences of g in document i.                  *)
(* transform(X') maps X' through the fitted token vocabulary in the same   *)
(* way (unseen tokens deleted / masked) and counts fitted columns only.    *)
(***************************************************************************)
EXTENDS TokStage
CONSTANTS Cfgs
cfg == Cfgs[ci]

\* ---------------------------------------------------------------- stage 2
Sizes(f) == IF f.mode = "exact" THEN {f.n} ELSE 1..f.n
GramsAt(doc, f) == {<<p, k>> \in (DOMAIN doc) \X Sizes(f) : p + k - 1 <= Len(doc)}     \* occurrences (start, size)
GramOf(doc, pk) == SubSeq(doc, pk[1], pk[1] + pk[2] - 1)
GramSet(doc, f) == {GramOf(doc, pk) : pk \in GramsAt(doc, f)}
GCountDoc(doc, f, g) == Cardinality({pk \in GramsAt(doc, f) : GramOf(doc, pk) = g})
GCount(c, f, g) == SumSeq([d \in DOMAIN c |-> GCountDoc(c[d], f, g)])
GDoc(c, f, g) == Cardinality({d \in DOMAIN c : g \in GramSet(c[d], f)})
AllGrams(c, f) == UNION {GramSet(c[d], f) : d \in DOMAIN c}
\* n = 1: the columns are the token vocabulary (incl. the mask entry); otherwise the pruned n-grams
Columns(c, f) == LET K == KeptTok(c, f)  pc == PreC(c, K, f) IN
                 IF f.n = 1 THEN {<<t>> : t \in K \cup (IF f.mask THEN {MASK} ELSE {})}
                 ELSE TopK({g \in AllGrams(pc, f) : NumOK(f.tok, GCount(pc, f, g), GDoc(pc, f, g))},
                           LAMBDA g : GCount(pc, f, g), f.tok.maxUnique)
\* lexicographic order of grams = sorted order of the label tuples
RECURSIVE LexLess(_, _)
LexLess(a, b) == IF a = <<>> THEN b # <<>> ELSE IF b = <<>> THEN FALSE
                 ELSE IF a[1] # b[1] THEN a[1] < b[1] ELSE LexLess(Tail(a), Tail(b))
ColIndex(cols, g) == Cardinality({h \in cols : LexLess(h, g)})

TrainCells(c, f) == LET K == KeptTok(c, f)  pc == PreC(c, K, f)  cols == Columns(c, f) IN
   {<<d, g, GCountDoc(pc[d], f, g)>> : d \in DOMAIN c, g \in cols} 
TransformCells(c, x, f) == LET K == KeptTok(c, f)  cols == Columns(c, f)
                               px == PreC(x, K \cup (IF f.mask THEN {MASK} ELSE {}), f) IN
   {<<d, g, GCountDoc(px[d], f, g)>> : d \in DOMAIN x, g \in cols}
NonZero(S) == {e \in S : e[3] > 0}

\* ---------------------------------------------------------------- lemmas checked by TLC
\* transform of the training data reproduces the training matrix
TransformOfTrainIsTrain == done => NonZero(TransformCells(corpus, corpus, cfg)) = NonZero(TrainCells(corpus, cfg))
\* exact counts conserve: without pruning the row total is the number of n-gram occurrences
NoPrune(f) == f.tok.minOcc = None /\ f.tok.maxOcc = None /\ f.tok.minDocOcc = None /\ f.tok.maxDocOcc = None
              /\ f.tok.excluded = {} /\ f.tok.maxUnique = None
RowTotals == done /\ NoPrune(cfg) =>
   \A d \in DOMAIN corpus :
      SumOver({e \in TrainCells(corpus, cfg) : e[1] = d}, LAMBDA e : e[3]) = Cardinality(GramsAt(corpus[d], cfg))
\* masking preserves length, deletion removes exactly the pruned tokens
PreLen == done => \A d \in DOMAIN corpus :
   LET K == KeptTok(corpus, cfg) IN
   Len(Pre(corpus[d], K, cfg)) = IF cfg.mask THEN Len(corpus[d]) ELSE Cardinality({p \in DOMAIN corpus[d] : corpus[d][p] \in K})

\* ---------------------------------------------------------------- '+' of two unigram models (merge)
\* model A fitted on `corpus`, model B on `test` (restricted to the training alphabet), no pruning
MergeCols(a, b) == {<<t>> : t \in {u \in Tok : TCount(a, u) > 0 \/ TCount(b, u) > 0}}
MergeTrain(a, b) == {<<d, g, CountIn(a[d], g[1])>> : d \in DOMAIN a, g \in MergeCols(a, b)} \cup
                    {<<Len(a) + d, g, CountIn(b[d], g[1])>> : d \in DOMAIN b, g \in MergeCols(a, b)}
\* the merged model behaves like one fitted on the concatenation
MergeIsConcat(a, b) == LET f == [n |-> 1, mode |-> "exact", mask |-> FALSE,
                                 tok |-> [minOcc |-> None, maxOcc |-> None, minDocOcc |-> None, maxDocOcc |-> None,
                                          excluded |-> {}, maxUnique |-> None]] IN
   /\ MergeCols(a, b) = Columns(a \o b, f)
   /\ NonZero(MergeTrain(a, b)) = NonZero(TrainCells(a \o b, f))
OnlyTok(x) == [d \in DOMAIN x |-> SelectSeq(x[d], LAMBDA t : t \in Tok)]
MergeLemma == done => MergeIsConcat(corpus, OnlyTok(test))

\* named precondition of the claim: after token pruning at least one n-gram exists (otherwise there is nothing
\* to count and the implementation fails while computing frequencies of an empty n-gram list)
HasGrams(c, f) == AllGrams(PreC(c, KeptTok(c, f), f), f) # {}

Init == GInit
Next == GNext
Spec == Init /\ [][Next]_gvars
CellsJson(S) == SetToSeq({[d |-> e[1], g |-> e[2], v |-> e[3]] : e \in NonZero(S)})
EmitInv == IF EMIT /\ done
           THEN PrintT(ToJson([corpus |-> corpus, test |-> test, ci |-> ci,
                               hasgrams |-> HasGrams(corpus, cfg),
                               cols |-> SetToSeq(Columns(corpus, cfg)),
                               colindex |-> SetToSeq({<<g, ColIndex(Columns(corpus, cfg), g)>> : g \in Columns(corpus, cfg)}),
                               train |-> CellsJson(TrainCells(corpus, cfg)),
                               trans |-> CellsJson(TransformCells(corpus, test, cfg))]))
           ELSE TRUE
====
