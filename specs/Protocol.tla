---- MODULE Protocol ----
(***************************************************************************)
(* The estimator protocol shared by every vectorizer / transformer         *)
(* (properties C02, C12, C13, the shape part of C01, the relational parts  *)
(* of C08 and C20).  One specification for all estimators: what is         *)
(* modelled is the life cycle and the observable facts the properties talk *)
(* about, not what a row means.                                            *)
(*                                                                         *)
(*   phase      "new" | "fitted"                                           *)
(*   fb         the batch the current model was fitted on                  *)
(*   memo       <<fit batch, item>> -> row class: for row-wise estimators  *)
(*              the row of an item depends only on the item and the fitted *)
(*              model (and the model only on batch, configuration, seed)   *)
(*   models     fit batch -> class of the fitted model's attributes        *)
(*   width      fit batch -> number of output columns                      *)
(* Calls: Fit, FitTransform, Transform, Refit (new estimator, same         *)
(* configuration and integer seed, same batch), SetKnob (memory / chunk /  *)
(* thread settings that must not matter), New (the estimator object is     *)
(* dropped; the next Fit constructs a fresh one with the same              *)
(* configuration and seed) and failing variants.  Within one lifetime a    *)
(* second Fit RE-FITS THE SAME OBJECT: memo, models and width survive both *)
(* New and re-fits, so a row / model / width obtained after a re-fit must  *)
(* equal the one a fresh estimator gives for the same fit batch and item - *)
(* nothing of an earlier fit or transform may leak into a later one.       *)
(* Reconf (set_params: the existing object is given the parameters of      *)
(* another configuration, as a parameter sweep without clone does) leaves  *)
(* the object unfitted for the purposes of the protocol: after the next    *)
(* Fit it must answer like a fresh estimator of that configuration (the    *)
(* trace encodes the configuration into the item identifiers, so the memo  *)
(* of one configuration is never compared with another's).                 *)
(* An OBSERVATION of a call carries: the returned row classes, the width,  *)
(* whether fit returned the estimator, whether arguments / constructor     *)
(* parameter objects / fitted attributes / the temporary directory were    *)
(* left unchanged, and the class of the fitted model.  Step(s, c, o) is    *)
(* the set of clause names the observation violates; a behaviour of the    *)
(* protocol is a history whose every step violates none.                   *)
(* This module is used in two directions: Next generates call histories    *)
(* (replayed into the real estimators), Trace_Protocol.tla checks recorded *)
(* observations with Step.                                                 *)
(***************************************************************************)
EXTENDS Integers, Sequences, FiniteSets, TLC, Json, Util
CONSTANTS NItems,     \* items of the pool are 1..NItems
          MaxBatch, MaxCalls,
          NKnobs,     \* knob settings 1..NKnobs (0 = none)
          Ops,        \* subset of {"fit", "fit_transform", "transform", "refit", "knob"} to generate
          EMIT
VARIABLES phase, fb, h
vars == <<phase, fb, h>>
Batches == UNION {[1..n -> 1..NItems] : n \in 1..MaxBatch}

\* ---------------------------------------------------------------- the observation semantics
InitState == [phase |-> "new", fb |-> <<>>, memo |-> <<>>, models |-> <<>>, width |-> <<>>]
Has(f, k) == k \in DOMAIN f
Put(f, k, v) == IF k \in DOMAIN f THEN f ELSE f @@ (k :> v)
\* row classes of an observed call against the memo of fit batch b0
RowClauses(s, b0, c, o) ==
   (IF Len(o.rows) # Len(c.b) THEN {"one_row_per_item"} ELSE {})
   \cup (IF \E i \in DOMAIN o.rows : i <= Len(c.b) /\ Has(s.memo, <<b0, c.b[i]>>) /\ s.memo[<<b0, c.b[i]>>] # o.rows[i]
         THEN {"row_depends_only_on_item_and_model"} ELSE {})
   \cup (IF \E i, j \in DOMAIN o.rows : i <= Len(c.b) /\ j <= Len(c.b) /\ c.b[i] = c.b[j] /\ o.rows[i] # o.rows[j]
         THEN {"duplicate_items_duplicate_rows"} ELSE {})
   \cup (IF Has(s.width, b0) /\ s.width[b0] # o.width THEN {"width_fixed_at_fit"} ELSE {})
Learn(s, b0, c, o) ==
   LET n == Min2(Len(o.rows), Len(c.b))
       RECURSIVE Add(_, _)
       Add(m, i) == IF i > n THEN m ELSE Add(Put(m, <<b0, c.b[i]>>, o.rows[i]), i + 1)
   IN [s EXCEPT !.memo = Add(s.memo, 1), !.width = Put(s.width, b0, o.width)]
SideEffects(o) == (IF ~o.args_ok THEN {"arguments_modified"} ELSE {})
                  \cup (IF ~o.params_ok THEN {"constructor_parameter_objects_modified"} ELSE {})
                  \cup (IF ~o.tmp_ok THEN {"temporary_files_left_behind"} ELSE {})
ModelClauses(s, b0, o) == IF Has(s.models, b0) /\ s.models[b0] # o.model THEN {"same_seed_same_model"} ELSE {}
\* violated clauses and successor state for call c with observation o
Clauses(s, c, o) ==
   SideEffects(o) \cup
   (CASE o.raised -> (IF c.op = "transform" /\ ~o.model_ok THEN {"failed_transform_changed_the_model"} ELSE {})
                     \cup (IF c.expect_ok THEN {"raised"} ELSE {})
      [] c.op \in {"fit", "refit"} -> (IF ~o.ret_self THEN {"fit_returns_self"} ELSE {}) \cup ModelClauses(s, c.b, o)
      [] c.op = "fit_transform" -> ModelClauses(s, c.b, o) \cup RowClauses(s, c.b, c, o)
      [] c.op = "transform" -> (IF s.phase # "fitted" THEN {"transform_before_fit"} ELSE {})
                               \cup (IF ~o.model_ok THEN {"transform_changed_the_model"} ELSE {})
                               \cup RowClauses(s, s.fb, c, o)
      [] c.op \in {"new", "reconf"} -> {}
      [] OTHER -> {})
After(s, c, o) ==
   CASE o.raised -> s
     [] c.op \in {"fit", "refit"} -> [s EXCEPT !.phase = "fitted", !.fb = c.b, !.models = Put(s.models, c.b, o.model)]
     [] c.op = "fit_transform" -> Learn([s EXCEPT !.phase = "fitted", !.fb = c.b, !.models = Put(s.models, c.b, o.model)], c.b, c, o)
     [] c.op = "transform" -> Learn(s, s.fb, c, o)
     [] c.op \in {"new", "reconf"} -> [s EXCEPT !.phase = "new", !.fb = <<>>]
     [] OTHER -> s

\* ---------------------------------------------------------------- generation of call histories
Init == phase = "new" /\ fb = <<>> /\ h = <<>>
Call(op, b, k) == [op |-> op, b |-> b, knob |-> k, expect_ok |-> TRUE]
Fit(b) == /\ "fit" \in Ops /\ Len(h) < MaxCalls
          /\ h' = Append(h, Call("fit", b, 0)) /\ phase' = "fitted" /\ fb' = b
FitTransform(b) == /\ "fit_transform" \in Ops /\ Len(h) < MaxCalls
                   /\ h' = Append(h, Call("fit_transform", b, 0)) /\ phase' = "fitted" /\ fb' = b
Transform(b) == /\ "transform" \in Ops /\ phase = "fitted" /\ Len(h) < MaxCalls
                /\ h' = Append(h, Call("transform", b, 0)) /\ UNCHANGED <<phase, fb>>
Refit == /\ "refit" \in Ops /\ phase = "fitted" /\ Len(h) < MaxCalls
         /\ h' = Append(h, Call("refit", fb, 0)) /\ UNCHANGED <<phase, fb>>
SetKnob(k) == /\ "knob" \in Ops /\ phase = "fitted" /\ Len(h) < MaxCalls
              /\ (h = <<>> \/ h[Len(h)].op # "knob")
              /\ h' = Append(h, Call("knob", <<>>, k)) /\ UNCHANGED <<phase, fb>>
New == /\ "new" \in Ops /\ phase = "fitted" /\ Len(h) < MaxCalls - 1
       /\ h' = Append(h, Call("new", <<>>, 0)) /\ phase' = "new" /\ fb' = <<>>
Reconf(k) == /\ "reconf" \in Ops /\ phase = "fitted" /\ Len(h) < MaxCalls - 1
             /\ h' = Append(h, Call("reconf", <<>>, k)) /\ phase' = "new" /\ fb' = <<>>
Next == \/ \E b \in Batches : Fit(b) \/ FitTransform(b) \/ Transform(b)
        \/ Refit \/ New \/ (\E k \in 1..NKnobs : Reconf(k)) \/ \E k \in 1..NKnobs : SetKnob(k)
Spec == Init /\ [][Next]_vars
\* the life cycle itself: transform is only generated on a fitted estimator
LifeCycle == \A i \in DOMAIN h : h[i].op \in {"transform", "refit", "knob", "new", "reconf"} =>
                \E j \in 1..(i - 1) : h[j].op \in {"fit", "fit_transform"} /\ \A k \in (j + 1)..(i - 1) : h[k].op \notin {"new", "reconf"}
EmitInv == IF EMIT /\ Len(h) = MaxCalls THEN PrintT(ToJson([h |-> h])) ELSE TRUE
====
