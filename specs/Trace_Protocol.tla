---- MODULE Trace_Protocol ----
(***************************************************************************)
(* Code -> spec binding of the estimator protocol: a batch of recorded     *)
(* call histories (IOEnv.TRACE_FILE), each a sequence of events            *)
(*   [c : the call (op, b, knob, expect_ok), o : the observation]          *)
(* is checked step by step with Protocol!Clauses.  The set of violated     *)
(* clause names of every step is reported; a history is accepted when all  *)
(* of its steps violate nothing.  Run with -workers 1.                     *)
(***************************************************************************)
EXTENDS Integers, Sequences, FiniteSets, TLC, Json, IOUtils, Util
T == JsonDeserialize(IOEnv.TRACE_FILE)
VARIABLES tid, l, s, bad
P == INSTANCE Protocol WITH NItems <- 1, MaxBatch <- 1, MaxCalls <- 1, NKnobs <- 0, Ops <- {}, EMIT <- FALSE,
                            phase <- "new", fb <- <<>>, h <- <<>>
Steps == T[tid].steps
Init == tid \in DOMAIN T /\ l = 1 /\ s = P!InitState /\ bad = {} /\ TLCSet(1, {})
Next == /\ l <= Len(Steps)
        /\ LET e == Steps[l] IN
             /\ bad' = P!Clauses(s, e.c, e.o)
             /\ s' = P!After(s, e.c, e.o)
        /\ l' = l + 1 /\ UNCHANGED tid
Spec == Init /\ [][Next]_<<tid, l, s, bad>>
Mark == /\ (bad # {} => PrintT(ToJson([clauses_tid |-> tid, step |-> l - 1, bad |-> bad])))
        /\ (l = Len(Steps) + 1 => TLCSet(1, TLCGet(1) \cup {tid}))
Finished == IF TLCGet(1) = DOMAIN T THEN TRUE ELSE PrintT(<<"UNFINISHED", (DOMAIN T) \ TLCGet(1)>>) /\ FALSE
====
