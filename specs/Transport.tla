---- MODULE Transport ----
(***************************************************************************)
(* The transportation linear program behind the exact Wasserstein          *)
(* vectorizer (C07).  Instance: integer masses a (n entries) and b         *)
(* (m entries) with the same total T, integer costs c[i][j] in 0..C.       *)
(* The transportation polytope has integral vertices, so the optimum over  *)
(* real plans equals the optimum over integer plans, which TLC finds by    *)
(* enumeration: Plans = matrices with row sums a and column sums b.        *)
(* Certificate(P, u, v) is LP duality (feasible potentials + complementary *)
(* slackness); the lemma CertificateSound - every certified plan is        *)
(* optimal - is checked on all enumerated instances so that certificates   *)
(* can be trusted for instances beyond enumeration range (Trace_Transport).*)
(***************************************************************************)
EXTENDS Integers, Sequences, FiniteSets, TLC, Json, Util
CONSTANTS N, M, T, C, EMIT
VARIABLES a, b, c, k
vars == <<a, b, c, k>>

RECURSIVE Comps(_, _)                      \* sequences of m naturals summing to t
Comps(t, m) == IF m = 1 THEN {<<t>>} ELSE UNION {{<<x>> \o r : r \in Comps(t - x, m - 1)} : x \in 0..t}
\* all plans with row sums ra and column sums cb, built row by row
RECURSIVE PlansFrom(_, _)
PlansFrom(ra, cb) ==
   IF ra = <<>> THEN (IF \A j \in DOMAIN cb : cb[j] = 0 THEN {<<>>} ELSE {})
   ELSE UNION {{<<row>> \o rest : rest \in PlansFrom(Tail(ra), [j \in DOMAIN cb |-> cb[j] - row[j]])} :
               row \in {r \in Comps(Head(ra), Len(cb)) : \A j \in DOMAIN cb : r[j] <= cb[j]}}
Plans == PlansFrom(a, b)
Cost(P) == SumSeq([i \in 1..N |-> SumSeq([j \in 1..M |-> P[i][j] * c[i][j]])])
Opt == Min({Cost(P) : P \in Plans})
OptPlans == {P \in Plans : Cost(P) = Opt}
Feasible(P) == /\ \A i \in 1..N : SumSeq(P[i]) = a[i] /\ \A j \in 1..M : P[i][j] >= 0
               /\ \A j \in 1..M : SumSeq([i \in 1..N |-> P[i][j]]) = b[j]
Certificate(P, u, v) == /\ Feasible(P)
                        /\ \A i \in 1..N, j \in 1..M : u[i] + v[j] <= c[i][j] /\ (P[i][j] > 0 => u[i] + v[j] = c[i][j])
finished == k > N * M
\* potentials in a range that always contains an optimal dual solution for these bounds
Pot == (-C)..C
CertificateSound == finished =>
   \A P \in Plans : (\E u \in [1..N -> Pot], v \in [1..M -> 0..C] : Certificate(P, u, v)) => Cost(P) = Opt
\* strong duality on the bounded instances: some optimal plan carries a certificate
CertificateExists == finished =>
   \E P \in OptPlans : \E u \in [1..N -> Pot], v \in [1..M -> 0..C] : Certificate(P, u, v)
PlansNonEmpty == finished => Plans # {}
\* weak duality: any dual-feasible potentials bound the cost of every plan from below
DualFeasible(u, v) == \A i \in 1..N, j \in 1..M : u[i] + v[j] <= c[i][j]
DualValue(u, v) == SumSeq([i \in 1..N |-> u[i] * a[i]]) + SumSeq([j \in 1..M |-> v[j] * b[j]])
WeakDuality == finished =>
   \A u \in [1..N -> Pot], v \in [1..M -> 0..C] : DualFeasible(u, v) => DualValue(u, v) <= Opt

Init == /\ a \in Comps(T, N) /\ b \in Comps(T, M)
        /\ c = [i \in 1..N |-> [j \in 1..M |-> 0]] /\ k = 1
SetC(x) == /\ k <= N * M
           /\ c' = [c EXCEPT ![((k - 1) \div M) + 1][((k - 1) % M) + 1] = x] /\ k' = k + 1 /\ UNCHANGED <<a, b>>
Next == \E x \in 0..C : SetC(x)
Spec == Init /\ [][Next]_vars
EmitInv == IF EMIT /\ finished
           THEN PrintT(ToJson([a |-> a, b |-> b, c |-> c, opt |-> Opt, nopt |-> Cardinality(OptPlans)]))
           ELSE TRUE
====
