---- MODULE Vocab ----
(***************************************************************************)
(* The learned vocabulary (property C05): which tokens survive pruning and *)
(* which index each gets.  Pure function of the corpus and the pruning     *)
(* configuration; exact integer arithmetic (frequencies are compared by    *)
(* cross-multiplication, never as floats).                                 *)
(*                                                                         *)
(* configuration (None is written -1, a frequency is <<num, den>> or       *)
(* <<-1, 1>>):                                                             *)
(*   [minOcc, maxOcc, minFreq, maxFreq,          token occurrence bounds   *)
(*    minDocOcc, maxDocOcc, minDocFreq, maxDocFreq,  document bounds       *)
(*    excluded : set of tokens, regexHit : set of tokens fully matching    *)
(*    the excluded regex, maxUnique]                                       *)
(* Kept0  = tokens satisfying every bound (a count equal to a bound is     *)
(*          kept), not excluded, not fully matching the regex;             *)
(* TopK   = what the implementation does for max_unique_tokens (keep the   *)
(*          tokens strictly more frequent than the (k+1)-th most frequent);*)
(* TopKOK = what the property demands of ANY such reduction: at most k,    *)
(*          a subset, none less frequent than a dropped one.               *)
(* Index(t) = number of kept tokens smaller than t (sorted order).         *)
(***************************************************************************)
EXTENDS Integers, Sequences, FiniteSets, TLC, Json, Util
CONSTANTS V, MaxLen, MaxDocs, Cfgs, EMIT,
          Boundary,   \* BOOLEAN: instead of building corpora, enumerate (count, total) pairs (boundary family)
          MaxTotal
Tok == 0..(V - 1)
None == -1
VARIABLES corpus, ci, done
vars == <<corpus, ci, done>>

Flat(c) == FlattenSeq(c)
Count(c, t) == CountIn(Flat(c), t)
Total(c) == Len(Flat(c))
NDocs(c) == Len(c)
DocCount(c, t) == Cardinality({d \in DOMAIN c : \E p \in DOMAIN c[d] : c[d][p] = t})
Present(c) == {t \in Tok : Count(c, t) > 0}

OK(c, cfg, t) ==
  /\ (cfg.minOcc # None => Count(c, t) >= cfg.minOcc)
  /\ (cfg.maxOcc # None => Count(c, t) <= cfg.maxOcc)
  /\ (cfg.minFreq[1] # None => Count(c, t) * cfg.minFreq[2] >= cfg.minFreq[1] * Total(c))
  /\ (cfg.maxFreq[1] # None => Count(c, t) * cfg.maxFreq[2] <= cfg.maxFreq[1] * Total(c))
  /\ (cfg.minDocOcc # None => DocCount(c, t) >= cfg.minDocOcc)
  /\ (cfg.maxDocOcc # None => DocCount(c, t) <= cfg.maxDocOcc)
  /\ (cfg.minDocFreq[1] # None => DocCount(c, t) * cfg.minDocFreq[2] >= cfg.minDocFreq[1] * NDocs(c))
  /\ (cfg.maxDocFreq[1] # None => DocCount(c, t) * cfg.maxDocFreq[2] <= cfg.maxDocFreq[1] * NDocs(c))
  /\ t \notin cfg.excluded
  /\ t \notin cfg.regexHit
Same == -2
RInt(c, x, v) == IF x = Same THEN v ELSE x
RFrq(c, f, n, d) == IF f[1] = Same THEN <<n, d>> ELSE f
Resolve(c, cfg) == [cfg EXCEPT !.minOcc = RInt(c, @, Count(c, 0)), !.maxOcc = RInt(c, @, Count(c, 0)),
                               !.minFreq = RFrq(c, @, Count(c, 0), Total(c)), !.maxFreq = RFrq(c, @, Count(c, 0), Total(c)),
                               !.minDocOcc = RInt(c, @, DocCount(c, 0)), !.maxDocOcc = RInt(c, @, DocCount(c, 0)),
                               !.minDocFreq = RFrq(c, @, DocCount(c, 0), NDocs(c)),
                               !.maxDocFreq = RFrq(c, @, DocCount(c, 0), NDocs(c))]
Kept0(c, cfg0) == LET cfg == Resolve(c, cfg0) IN {t \in Present(c) : OK(c, cfg, t)}

\* the (k+1)-th largest count among S (with multiplicity)
KthPlus1(c, S, k) == CHOOSE x \in {Count(c, t) : t \in S} :
                        /\ Cardinality({t \in S : Count(c, t) > x}) <= k
                        /\ Cardinality({t \in S : Count(c, t) >= x}) >= k + 1
TopK(c, S, k) == IF Cardinality(S) <= k THEN S ELSE {t \in S : Count(c, t) > KthPlus1(c, S, k)}
TopKOK(c, S, k, K) == /\ K \subseteq S /\ Cardinality(K) <= k
                      /\ \A x \in K, y \in S \ K : Count(c, x) >= Count(c, y)
Kept(c, cfg) == IF cfg.maxUnique = None THEN Kept0(c, cfg) ELSE TopK(c, Kept0(c, cfg), cfg.maxUnique)
Index(K, t) == Cardinality({u \in K : u < t})

\* ---- properties of the definition itself, checked by TLC on every instance
TopKSatisfiesProperty == done /\ Cfgs[ci].maxUnique # None =>
   TopKOK(corpus, Kept0(corpus, Cfgs[ci]), Cfgs[ci].maxUnique, Kept(corpus, Cfgs[ci]))
IndexIsBijection == done => LET K == Kept(corpus, Cfgs[ci]) IN {Index(K, t) : t \in K} = 0..(Cardinality(K) - 1)
\* order of documents and of tokens inside documents is irrelevant
PermInvariant == done =>
   /\ Kept(RevSeq(corpus), Cfgs[ci]) = Kept(corpus, Cfgs[ci])
   /\ Kept([d \in DOMAIN corpus |-> RevSeq(corpus[d])], Cfgs[ci]) = Kept(corpus, Cfgs[ci])
\* a token occurring exactly the bound is kept (given the other constraints hold)
\* in the boundary family token 0 sits exactly on every Same bound, so it must be kept
Token0Kept == done /\ Boundary => 0 \in Kept0(corpus, Cfgs[ci])
BoundaryKept == done =>
   \A t \in Present(corpus) :
      LET cfg == Cfgs[ci]  only(b) == [cfg EXCEPT !.minOcc = IF b = 1 THEN Count(corpus, t) ELSE None,
                                                   !.maxOcc = IF b = 2 THEN Count(corpus, t) ELSE None,
                                                   !.minFreq = <<None, 1>>, !.maxFreq = <<None, 1>>,
                                                   !.minDocOcc = None, !.maxDocOcc = None,
                                                   !.minDocFreq = <<None, 1>>, !.maxDocFreq = <<None, 1>>,
                                                   !.excluded = {}, !.regexHit = {}, !.maxUnique = None]
      IN t \in Kept0(corpus, only(1)) /\ t \in Kept0(corpus, only(2))

\* ---- instance generation
InitBuild == corpus = << <<>> >> /\ ci \in DOMAIN Cfgs /\ done = FALSE
\* boundary family: `total` one-token documents, the first c hold token 0, the others token 1:
\* Count(0) = DocCount(0) = c and Total = NDocs = total.  In this family the sentinel Same (-2) in a
\* configuration stands for "exactly the count of token 0" (resp. its frequency c/total).
BoundaryCorpus(c, total) == [i \in 1..total |-> IF i <= c THEN <<0>> ELSE <<1>>]
InitBoundary == /\ corpus \in {BoundaryCorpus(ct[1], ct[2]) : ct \in {x \in (1..MaxTotal) \X (1..MaxTotal) : x[1] <= x[2]}}
                /\ ci \in DOMAIN Cfgs /\ done = TRUE
Init == IF Boundary THEN InitBoundary ELSE InitBuild
AddTok(t) == /\ ~done /\ Len(corpus[Len(corpus)]) < MaxLen
             /\ corpus' = [corpus EXCEPT ![Len(corpus)] = Append(@, t)] /\ UNCHANGED <<ci, done>>
NewDoc == /\ ~done /\ Len(corpus) < MaxDocs
          /\ corpus' = Append(corpus, <<>>) /\ UNCHANGED <<ci, done>>
Finish == /\ ~done /\ Total(corpus) > 0 /\ done' = TRUE /\ UNCHANGED <<corpus, ci>>
Next == (\E t \in Tok : AddTok(t)) \/ NewDoc \/ Finish
Spec == Init /\ [][Next]_vars
EmitInv == IF EMIT /\ done
           THEN LET K == Kept(corpus, Cfgs[ci]) IN
                PrintT(ToJson([corpus |-> corpus, ci |-> ci, kept0 |-> SetToSortSeq(Kept0(corpus, Cfgs[ci]), <),
                               kept |-> SetToSortSeq(K, <),
                               index |-> [t \in 1..V |-> IF (t - 1) \in K THEN Index(K, t - 1) ELSE -1]]))
           ELSE TRUE
====
