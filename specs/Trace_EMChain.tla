---- MODULE Trace_EMChain ----
(***************************************************************************)
(* Code -> spec binding for the ITERATION of the EM / epsilon pipeline     *)
(* (C11, first sentence): consecutive recorded matrices must be related by *)
(* the documented step                                                     *)
(*     M_{k+1} = Threshold_eps( NormaliseColumns( Step_corpus( M_k ) ) )   *)
(* where Step lets every token occurrence distribute one unit of mass over *)
(* the cells (own row, window block, context token) of its window contexts *)
(* in proportion to kernel weight x the current cell value.                *)
(*                                                                         *)
(* A recorded run is  [family, V, eps, wins, corpus, mats]  : token /      *)
(* timed / multiset / n-gram vectorizer; wins[i] = [orient, r, mix, kw]    *)
(* are its windows (window_orientations, window_radii, mix_weights); a     *)
(* "directional" window is a before and an after window; internal window   *)
(* i owns the column block (i-1) * V + token; kw[j] is the kernel weight   *)
(* at distance j as a small integer numerator (flat 1,1,1 / harmonic 2,1 / *)
(* geometric 4,2,1: only ratios matter; multiset distances start at 0);    *)
(* mats[k] is                                                              *)
(* the matrix obtained with n_iter = k-1 on the same corpus and settings.  *)
(* A cell is coded 0 when ABSENT from the sparse structure and q + 1 when  *)
(* present with value v, q = floor(v * 10^6)  (for the raw count matrix    *)
(* M_0 with eps = 0:  q = floor(v * 10^4)).                                *)
(*                                                                         *)
(* The implementation computes in float32 and the record is rounded, so    *)
(* TLC evaluates the step in INTERVAL arithmetic over integers: every      *)
(* present cell stands for [q - U, q + 1 + U]; the posterior, the column   *)
(* normalisation and the threshold are bounded from below and above with   *)
(* floor / ceiling divisions (Div6 keeps every product below 2^31).  The   *)
(* recorded M_{k+1} must meet the resulting box cell by cell: a verdict is *)
(* sound (never an alarm when the code follows the procedure) and as       *)
(* sharp as the conditioning of the instance allows.                       *)
(***************************************************************************)
EXTENDS Integers, Sequences, FiniteSets, TLC, Json, IOUtils, Util
T == JsonDeserialize(IOEnv.TRACE_FILE)
VARIABLES tid, done
X == T[tid]
V == X.V
ONE == 1000000
U == 2                       \* record / float32 slack on an input cell, in its units
TOL == 30                    \* slack on the compared cell (3e-5), as in Trace_EM
Rows == 1..Len(X.mats[1])       \* V token rows; for the n-gram family one row per n-gram of X.grams
Cols == 1..Len(X.mats[1][1])      \* one block of V columns per internal window
\* floor(x * 10^6 / z) for 0 <= x <= z < 2*10^8 without leaving 32-bit integers (long division, one decimal digit per stage)
RECURSIVE DivR(_, _, _)
DivR(x, z, n) == IF n = 0 THEN 0 ELSE LET a == x * 10 IN (a \div z) * Pow(10, n - 1) + DivR(a % z, z, n - 1)
Div6(x, z) == DivR(x, z, 6)
\* ---- boxes: [lo, hi] per cell, 0/0 for an absent cell
BoxOf(M) == [a \in Rows |-> [c \in Cols |-> IF M[a][c] = 0 THEN <<0, 0>> ELSE <<Max2(0, M[a][c] - 1 - U), M[a][c] + U>>]]
\* column normalisation of a box (any units in, 10^-6 units out); absent stays absent
NormBox(B) == [a \in Rows |-> [c \in Cols |->
   IF B[a][c][2] = 0 THEN <<0, 0>>
   ELSE LET oLo == SumSeq([b \in Rows |-> IF b = a THEN 0 ELSE B[b][c][1]])
            oHi == SumSeq([b \in Rows |-> IF b = a THEN 0 ELSE B[b][c][2]])
        IN << IF B[a][c][1] = 0 THEN 0 ELSE Div6(B[a][c][1], B[a][c][1] + oHi),
              Min2(ONE, Div6(B[a][c][2], B[a][c][2] + oLo) + 1) >>]]
\* ---- the step
\* internal windows: a "directional" window is a before window followed by an after window with the same parameters; internal
\* window i owns the column block (i - 1) * V + token + 1.  The weight of a context is  mix * kw[distance]  of its window.
IW == FlattenSeq([i \in DOMAIN X.wins |->
         IF X.wins[i].orient = "directional" THEN << [X.wins[i] EXCEPT !.orient = "before"], [X.wins[i] EXCEPT !.orient = "after"] >>
         ELSE << X.wins[i] >>])
Before(i) == IW[i].orient = "before"
Base(i) == (i - 1) * V
\* share of context j of one occurrence: w_j / sum_i w_i, bounded with the other weights at their opposite ends; the weighted
\* values are scaled down by 16 when their total would not fit the long division
Share(B, a, cx, kw, j) ==
   LET tot == SumSeq([i \in DOMAIN cx |-> kw[i] * B[a][cx[i]][2]])
       S == IF tot < 200000000 THEN 1 ELSE 16
       wlo(i) == (kw[i] * B[a][cx[i]][1]) \div S
       whi(i) == IF B[a][cx[i]][2] = 0 THEN 0 ELSE ((kw[i] * B[a][cx[i]][2]) \div S) + (IF S = 1 THEN 0 ELSE 1)
       lo == wlo(j)   hi == whi(j)
       oLo == SumSeq([i \in DOMAIN cx |-> IF i = j THEN 0 ELSE wlo(i)])
       oHi == SumSeq([i \in DOMAIN cx |-> IF i = j THEN 0 ELSE whi(i)])
   IN IF hi = 0 THEN <<0, 0>>
      ELSE << IF lo = 0 THEN 0 ELSE Div6(lo, lo + oHi), Min2(ONE, Div6(hi, hi + oLo) + 1) >>
\* ---- occurrences, their rows, contexts <<column, weight>>, per family
\* token / timed family: window i looks at the r positions before / after the occurrence (distance j, weight kw[j])
TokCtx(d, p, i) == LET w == IW[i] IN
   IF Before(i) THEN [j \in 1..Max2(0, Min2(w.r, p - 1)) |-> <<Base(i) + d[p - j] + 1, w.mix * w.kw[j]>>]
   ELSE [j \in 1..Max2(0, Min2(w.r, Len(d) - p)) |-> <<Base(i) + d[p + j] + 1, w.mix * w.kw[j]>>]
\* multiset family: a document is a sequence of multisets; the contexts of member q of multiset m are the other members of its own
\* multiset (distance 0) and the members of the previous / next r multisets; kw[k + 1] is the weight at multiset distance k
MULTI == X.family = "multi"
NGRAM == X.family = "ngram"
GroupCtx(doc, m, q, i) == LET w == IW[i]
       n == IF Before(i) THEN Min2(w.r, m - 1) ELSE Min2(w.r, Len(doc) - m)
       g(k) == IF Before(i) THEN m - k ELSE m + k
   IN FlattenSeq([kk \in 1..(n + 1) |->
         SelectSeq([x \in DOMAIN doc[g(kk - 1)] |-> IF kk = 1 /\ x = q THEN <<>> ELSE <<Base(i) + doc[g(kk - 1)][x] + 1, w.mix * w.kw[kk]>>],
                   LAMBDA e : e # <<>>)])
\* n-gram family: rows are the n-grams X.grams (row order of the fitted model), an occurrence ends at position p >= N; a before
\* window looks left of its first token, an after window right of its last token
GramRow(g) == CHOOSE i \in DOMAIN X.grams : X.grams[i] = g
NgCtx(d, p, i) == LET w == IW[i] IN
   IF Before(i) THEN [j \in 1..Max2(0, Min2(w.r, p - X.N)) |-> <<Base(i) + d[p - X.N + 1 - j] + 1, w.mix * w.kw[j]>>]
   ELSE [j \in 1..Max2(0, Min2(w.r, Len(d) - p)) |-> <<Base(i) + d[p + j] + 1, w.mix * w.kw[j]>>]
Occs == IF NGRAM THEN UNION {{<<d, p>> : p \in X.N..Len(X.corpus[d])} : d \in DOMAIN X.corpus} ELSE
        IF MULTI THEN UNION {UNION {{<<d, m, q>> : q \in DOMAIN X.corpus[d][m]} : m \in DOMAIN X.corpus[d]} : d \in DOMAIN X.corpus}
        ELSE UNION {{<<d, p>> : p \in DOMAIN X.corpus[d]} : d \in DOMAIN X.corpus}
Row(o) == IF NGRAM THEN GramRow(SubSeq(X.corpus[o[1]], o[2] - X.N + 1, o[2])) ELSE
          IF MULTI THEN X.corpus[o[1]][o[2]][o[3]] + 1 ELSE X.corpus[o[1]][o[2]] + 1
CWOf(o) == FlattenSeq([i \in DOMAIN IW |->
              IF NGRAM THEN NgCtx(X.corpus[o[1]], o[2], i)
              ELSE IF MULTI THEN GroupCtx(X.corpus[o[1]], o[2], o[3], i)
              ELSE TokCtx(X.corpus[o[1]], o[2], i)])
\* posterior box (units: 10^-6 of one occurrence's mass, then divided by 8 so that column totals stay small)
PostBox(B) == [a \in Rows |-> [c \in Cols |->
   LET mine == {o \in Occs : Row(o) = a}
       sh(o) == LET cw == CWOf(o)  cx == [j \in DOMAIN cw |-> cw[j][1]]  kw == [j \in DOMAIN cw |-> cw[j][2]] IN
                <<SumSeq([j \in DOMAIN cx |-> IF cx[j] = c THEN Share(B, a, cx, kw, j)[1] ELSE 0]),
                  SumSeq([j \in DOMAIN cx |-> IF cx[j] = c THEN Share(B, a, cx, kw, j)[2] ELSE 0])>>
       lo == SumOver(mine, LAMBDA o : sh(o)[1])
       hi == SumOver(mine, LAMBDA o : sh(o)[2])
   IN << lo \div 8, IF hi = 0 THEN 0 ELSE (hi \div 8) + 1 >>]]
\* the box the next recorded matrix has to meet
Prior(k) == IF k = 1 /\ X.eps = 0 THEN NormBox(BoxOf(X.mats[1])) ELSE BoxOf(X.mats[k])
NextBox(k) == NormBox(PostBox(Prior(k)))
\* cell verdict: recorded code m (0 absent / q + 1) against the box <<lo, hi>> and the threshold
CellOK(m, bx) ==
   IF m = 0 THEN bx[1] <= TOL \/ bx[1] < X.eps + TOL                      \* never reached, vanished, or thresholded
   ELSE /\ bx[2] + TOL >= X.eps                                            \* a kept cell may not lie below epsilon
        /\ (m - 1) - TOL <= bx[2] /\ m + TOL >= bx[1]                      \* and meets the box
BadCells(k) == LET nb == NextBox(k) IN {<<a, c>> \in Rows \X Cols : ~CellOK(X.mats[k + 1][a][c], nb[a][c])}
Steps == 1..(Len(X.mats) - 1)
FirstBad == IF \E k \in Steps : BadCells(k) # {}
            THEN LET k == CHOOSE kk \in Steps : BadCells(kk) # {} /\ \A j \in 1..(kk - 1) : BadCells(j) = {}
                     cell == CHOOSE c \in BadCells(k) : TRUE
                 IN <<k, cell[1] - 1, cell[2] - 1, X.mats[k + 1][cell[1]][cell[2]], NextBox(k)[cell[1]][cell[2]][1], NextBox(k)[cell[1]][cell[2]][2]>>
            ELSE <<>>
\* sharpness of the verdict: the widest box of the run (10^-6 units), reported so that the evidence can say how tight the check was
Width == LET ws == {NextBox(k)[a][c][2] - NextBox(k)[a][c][1] : k \in Steps, a \in Rows, c \in Cols} IN
         IF ws = {} THEN 0 ELSE CHOOSE w \in ws : \A v \in ws : v <= w
Init == tid \in DOMAIN T /\ done = FALSE
Next == ~done /\ done' = TRUE /\ UNCHANGED tid
Spec == Init /\ [][Next]_<<tid, done>>
Verdict == done => PrintT(ToJson([verdict |-> tid, bad |-> FirstBad, width |-> Width]))
====
