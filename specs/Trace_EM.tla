---- MODULE Trace_EM ----
(***************************************************************************)
(* Code -> spec binding for the EM / epsilon pipeline (C11): a recorded    *)
(* run is the sequence of matrices M_0, M_1, ..., M_n obtained with        *)
(* n_iter = 0..n (same corpus, same settings) in fixed point (1e-6 units), *)
(* together with epsilon.  TLC decides the consequences the property       *)
(* states: entries in [0, 1]; every column sums to at most 1 (exactly 1    *)
(* for non-empty columns when epsilon = 0); no entry below epsilon         *)
(* survives; the support never grows from one iteration to the next.       *)
(***************************************************************************)
EXTENDS Integers, Sequences, TLC, Json, IOUtils, Util
T == JsonDeserialize(IOEnv.TRACE_FILE)
VARIABLES tid, done
X == T[tid]
FX == 1000000
TOL == 30                                   \* float32 accumulation slack (3e-5)
ColSum(M, c) == SumSeq([r \in DOMAIN M |-> M[r][c]])
\* M_0 with epsilon = 0 is the raw (un-normalised) co-occurrence matrix: the normalisation clauses speak about the others
Norm == {k \in DOMAIN X.mats : k > 1 \/ X.eps > 0}
Clauses ==
   LET Ms == X.mats IN
   (IF \E k \in Norm : \E r \in DOMAIN Ms[k] : \E c \in DOMAIN Ms[k][r] : Ms[k][r][c] < 0 \/ Ms[k][r][c] > FX + TOL
    THEN {"entry_outside_0_1"} ELSE {})
   \cup (IF \E k \in Norm : \E c \in DOMAIN Ms[k][1] : ColSum(Ms[k], c) > FX + TOL THEN {"column_sum_above_1"} ELSE {})
   \cup (IF X.eps = 0 /\ \E k \in Norm : \E c \in DOMAIN Ms[k][1] : ColSum(Ms[k], c) > 0 /\ ColSum(Ms[k], c) < FX - TOL
         THEN {"nonempty_column_does_not_sum_to_1"} ELSE {})
   \cup (IF \E k \in Norm : \E r \in DOMAIN Ms[k] : \E c \in DOMAIN Ms[k][r] : Ms[k][r][c] > 0 /\ Ms[k][r][c] < X.eps - TOL
         THEN {"entry_below_epsilon_survived"} ELSE {})
   \cup (IF \E k \in 1..(Len(Ms) - 1) : \E r \in DOMAIN Ms[k] : \E c \in DOMAIN Ms[k][r] : Ms[k + 1][r][c] > 0 /\ Ms[k][r][c] = 0
         THEN {"support_grew"} ELSE {})
Init == tid \in DOMAIN T /\ done = FALSE
Next == ~done /\ done' = TRUE /\ UNCHANGED tid
Spec == Init /\ [][Next]_<<tid, done>>
Verdict == done => PrintT(ToJson([verdict |-> tid, clauses |-> Clauses]))
====
