---- MODULE CoocAtScale ----
(***************************************************************************)
(* Closed form of the flat-kernel co-occurrence matrix of periodic         *)
(* documents tok[p] = p mod V (p = 0..L-1), used as the exact oracle for   *)
(* runs at the production buffer/sort thresholds (millions of events),     *)
(* where enumerating the definition is out of reach.                       *)
(* TLC checks, for every small (L, V, R), that the closed form equals the  *)
(* brute-force count of Cooc.tla's definition; for large L it evaluates    *)
(* the closed form only (plain integer arithmetic).                        *)
(***************************************************************************)
EXTENDS Integers, Sequences, FiniteSets, TLC, Json, Util
CONSTANTS MaxL, MaxV, MaxR,   \* bounds for the equivalence check
          Big                 \* sequence of [L, V, R, D] for which the closed form is emitted
VARIABLES L, V, R, done
vars == <<L, V, R, done>>

\* number of p in 0..hi with p mod v = a
CountCong(hi, v, a) == IF hi < a THEN 0 ELSE (hi - a) \div v + 1
\* 'after' block: pairs (p, p + j), 1 <= j <= r, p + j <= l - 1, p mod v = a, (p + j) mod v = b
After(l, v, r, a, b) == SumSeq([j \in 1..r |-> IF (a + j) % v = b THEN CountCong(l - 1 - j, v, a) ELSE 0])
\* 'before' block: pairs (p, p - j): same pairs seen from the other end
Before(l, v, r, a, b) == After(l, v, r, b, a)
\* brute force, straight from the definition (window never leaves the document)
BruteAfter(l, v, r, a, b) ==
   Cardinality({pq \in (0..(l - 1)) \X (0..(l - 1)) :
                   pq[1] % v = a /\ pq[2] % v = b /\ pq[2] > pq[1] /\ pq[2] - pq[1] <= r})
BruteBefore(l, v, r, a, b) ==
   Cardinality({pq \in (0..(l - 1)) \X (0..(l - 1)) :
                   pq[1] % v = a /\ pq[2] % v = b /\ pq[2] < pq[1] /\ pq[1] - pq[2] <= r})
ClosedFormOK == \A a, b \in 0..(V - 1) :
                   /\ After(L, V, R, a, b) = BruteAfter(L, V, R, a, b)
                   /\ Before(L, V, R, a, b) = BruteBefore(L, V, R, a, b)
\* total number of events = what the buffers must hold
TotalEvents(l, v, r) == SumSeq([j \in 1..r |-> Max2(0, l - j)])
TotalOK == SumSeq([a \in 1..V |-> SumSeq([b \in 1..V |-> After(L, V, R, a - 1, b - 1)])]) = TotalEvents(L, V, R)

Init == L \in 1..MaxL /\ V \in 1..MaxV /\ R \in 1..MaxR /\ done = FALSE
Next == ~done /\ done' = TRUE /\ UNCHANGED <<L, V, R>>
Spec == Init /\ [][Next]_vars
\* only the cells that can be non-zero: b = (a + j) mod V for some j in 1..R   (requires V > R or small V)
BigCells(c) == [l |-> c.L, v |-> c.V, r |-> c.R, d |-> c.D, events |-> c.D * 2 * TotalEvents(c.L, c.V, c.R),
                cells |-> SetToSeq({[a |-> ab[1], b |-> ab[2], post |-> c.D * After(c.L, c.V, c.R, ab[1], ab[2]),
                                     pre |-> c.D * Before(c.L, c.V, c.R, ab[1], ab[2])] :
                                    ab \in {<<x, (x + j) % c.V>> : x \in 0..(c.V - 1), j \in (-c.R)..c.R}})]
EmitBig == (L = 1 /\ V = 1 /\ R = 1 /\ ~done) => \A i \in DOMAIN Big : PrintT(ToJson(BigCells(Big[i])))
====
