---- MODULE Trace_Transport ----
(***************************************************************************)
(* Code -> spec binding for transport problems beyond enumeration range    *)
(* (C07): the harness records, for each real call of transport_plan, the   *)
(* integer instance (a, b, c) and integer dual potentials (u, v) obtained  *)
(* from an independent LP solve.  TLC decides dual feasibility and         *)
(* evaluates the dual value; by weak duality (lemma WeakDuality of         *)
(* Transport.tla, model-checked on the enumerated instances) that value    *)
(* is a lower bound on the cost of EVERY coupling, so the harness only has *)
(* to compare the float cost of the plan the code returned with it.        *)
(* When the recorded plan is integral (T * plan rounds to integers) the    *)
(* full certificate (feasibility + complementary slackness) is checked.    *)
(***************************************************************************)
EXTENDS Integers, Sequences, FiniteSets, TLC, Json, IOUtils, Util
B == JsonDeserialize(IOEnv.TRACE_FILE)          \* sequence of [a, b, c, u, v, hasP, P]
VARIABLES tid, done
vars == <<tid, done>>
X == B[tid]
NN == Len(X.a)
MM == Len(X.b)
DualFeasible == \A i \in 1..NN, j \in 1..MM : X.u[i] + X.v[j] <= X.c[i][j]
DualValue == SumSeq([i \in 1..NN |-> X.u[i] * X.a[i]]) + SumSeq([j \in 1..MM |-> X.v[j] * X.b[j]])
Feasible(P) == /\ \A i \in 1..NN : SumSeq(P[i]) = X.a[i] /\ \A j \in 1..MM : P[i][j] >= 0
               /\ \A j \in 1..MM : SumSeq([i \in 1..NN |-> P[i][j]]) = X.b[j]
Slack(P) == \A i \in 1..NN, j \in 1..MM : P[i][j] > 0 => X.u[i] + X.v[j] = X.c[i][j]
PCost(P) == SumSeq([i \in 1..NN |-> SumSeq([j \in 1..MM |-> P[i][j] * X.c[i][j]])])
Init == tid \in DOMAIN B /\ done = FALSE
Next == ~done /\ done' = TRUE /\ UNCHANGED tid
Spec == Init /\ [][Next]_vars
\* verdict per recorded call (printed once per trace id)
Verdict == done => PrintT(<<"VERDICT", tid, DualFeasible, DualValue,
                            IF X.hasP THEN (Feasible(X.P) /\ Slack(X.P) /\ PCost(X.P) = DualValue) ELSE TRUE>>)
====
