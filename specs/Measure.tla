---- MODULE Measure ----
(***************************************************************************)
(* The group of re-encodings of a finite measure (C08).  A distribution is *)
(* given to the Wasserstein-style vectorizers as a list of support points  *)
(* with weights; many lists denote the same probability measure:           *)
(*   Scale(k)     multiply every weight by k                               *)
(*   PadZero(p)   list point p with weight 0                               *)
(*   Swap(i)      exchange entries i and i+1 (points move with weights)    *)
(*   Split(i, w)  replace entry i = (p, x) by (p, w), (p, x - w)           *)
(*   Merge(i)     merge entries i, i+1 when they carry the same point      *)
(* enc0 is the encoding the behaviour started from.  TLC checks that every *)
(* reachable encoding denotes the same measure (SameMeasure) and emits the *)
(* reachable encodings; the embedding computed by the real vectorizers     *)
(* must be constant on them.                                               *)
(***************************************************************************)
EXTENDS Integers, Sequences, FiniteSets, TLC, Json, Util
CONSTANTS Bases,        \* sequence of base encodings, each a sequence of <<point, weight>>
          NPoints, MaxLen, MaxSteps, Scales, EMIT
VARIABLES bi, enc, steps
vars == <<bi, enc, steps>>
view == <<bi, enc>>
Mass(e, p) == SumSeq([i \in DOMAIN e |-> IF e[i][1] = p THEN e[i][2] ELSE 0])
Total(e) == SumSeq([i \in DOMAIN e |-> e[i][2]])
SameMeasure(e, f) == \A p \in 1..NPoints : Mass(e, p) * Total(f) = Mass(f, p) * Total(e)
Init == bi \in DOMAIN Bases /\ enc = Bases[bi] /\ steps = 0
Scale(k) == /\ Total(enc) * k <= 60 /\ enc' = [i \in DOMAIN enc |-> <<enc[i][1], enc[i][2] * k>>]
PadZero(p) == /\ Len(enc) < MaxLen /\ enc' = Append(enc, <<p, 0>>)
Swap(i) == /\ i < Len(enc) /\ enc' = [enc EXCEPT ![i] = enc[i + 1], ![i + 1] = enc[i]]
Split(i, w) == /\ Len(enc) < MaxLen /\ w >= 1 /\ w < enc[i][2]
               /\ enc' = SubSeq(enc, 1, i - 1) \o << <<enc[i][1], w>>, <<enc[i][1], enc[i][2] - w>> >> \o SubSeq(enc, i + 1, Len(enc))
Merge(i) == /\ i < Len(enc) /\ enc[i][1] = enc[i + 1][1]
            /\ enc' = SubSeq(enc, 1, i - 1) \o << <<enc[i][1], enc[i][2] + enc[i + 1][2]>> >> \o SubSeq(enc, i + 2, Len(enc))
Next == /\ steps < MaxSteps /\ steps' = steps + 1 /\ UNCHANGED bi
        /\ \/ \E k \in Scales : Scale(k)
           \/ \E p \in 1..NPoints : PadZero(p)
           \/ \E i \in DOMAIN enc : Swap(i) \/ Merge(i) \/ \E w \in 1..3 : Split(i, w)
Spec == Init /\ [][Next]_vars
Invariant == SameMeasure(enc, Bases[bi]) /\ Total(enc) > 0
\* two different base measures are really different (so that equal embeddings across bases would be a coincidence)
BasesDistinct == \A i, j \in DOMAIN Bases : i # j => ~SameMeasure(Bases[i], Bases[j])
EmitInv == IF EMIT THEN PrintT(ToJson([bi |-> bi, enc |-> enc, steps |-> steps])) ELSE TRUE
====
