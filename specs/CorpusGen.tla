---- MODULE CorpusGen ----
(***************************************************************************)
(* Shared instance generator of the document-vectorizer specifications     *)
(* (Ngram, Skipgram, LZ, BPE ...): a training corpus and a transform       *)
(* corpus are built token by token, so that breadth-first search           *)
(* enumerates every (X, X') pair within the bounds and -simulate samples   *)
(* larger ones.  The transform alphabet contains the training alphabet     *)
(* 0..V-1 plus the symbol V+1, which never occurs in training (V itself is *)
(* reserved for the mask token).                                           *)
(***************************************************************************)
EXTENDS Integers, Sequences, FiniteSets, TLC, Json, Util
CONSTANTS V, MaxLen, MaxDocs, TMaxLen, TMaxDocs, NCfg, EMIT
VARIABLES corpus, test, phase, ci
gvars == <<corpus, test, phase, ci>>
Tok == 0..(V - 1)
UNSEEN == V + 1
TokT == Tok \cup {UNSEEN}
done == phase = "done"
GInit == corpus = << <<>> >> /\ test = << <<>> >> /\ phase = "train" /\ ci \in 1..NCfg
AddTok(t) == /\ phase = "train" /\ Len(corpus[Len(corpus)]) < MaxLen
             /\ corpus' = [corpus EXCEPT ![Len(corpus)] = Append(@, t)] /\ UNCHANGED <<test, phase, ci>>
NewDoc == /\ phase = "train" /\ Len(corpus) < MaxDocs
          /\ corpus' = Append(corpus, <<>>) /\ UNCHANGED <<test, phase, ci>>
StartTest == /\ phase = "train" /\ (\E d \in DOMAIN corpus : corpus[d] # <<>>)
             /\ phase' = "test" /\ UNCHANGED <<corpus, test, ci>>
AddT(t) == /\ phase = "test" /\ Len(test[Len(test)]) < TMaxLen
           /\ test' = [test EXCEPT ![Len(test)] = Append(@, t)] /\ UNCHANGED <<corpus, phase, ci>>
NewT == /\ phase = "test" /\ Len(test) < TMaxDocs
        /\ test' = Append(test, <<>>) /\ UNCHANGED <<corpus, phase, ci>>
Finish == /\ phase = "test" /\ phase' = "done" /\ UNCHANGED <<corpus, test, ci>>
GNext == (\E t \in Tok : AddTok(t)) \/ NewDoc \/ StartTest \/ (\E t \in TokT : AddT(t)) \/ NewT \/ Finish
====
