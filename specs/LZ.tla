---- MODULE LZ ----
(***************************************************************************)
(* LZCompressionVectorizer (C16, C01, C02, C12): each row counts the       *)
(* phrases of its own string's Lempel-Ziv parse.                           *)
(*                                                                         *)
(* instance = [train, test : sequences of strings (a string is a sequence  *)
(*   of character codes), maxDict, base : <<key, count>> pairs (the base   *)
(*   dictionary, already keyed), ht : <<phrase, key>> pairs - the hash     *)
(*   value of every phrase that can occur (the identity when hashing is    *)
(*   off; LOGGED from the fitted hash function when hashing is on, so      *)
(*   collisions are modelled, not assumed away), ncols : max_columns or 0] *)
(* The parse is the state machine of lempel_ziv_based_encode: for          *)
(* end = 0..len-1, phrase = s[start, end):  known -> count + 1;            *)
(* dictionary full -> start = end (nothing counted); else insert with      *)
(* count 1 and start = end.  The dictionary remembers insertion order,     *)
(* which determines the fitted column order (first seen over the training  *)
(* strings).                                                               *)
(***************************************************************************)
EXTENDS Integers, Sequences, FiniteSets, TLC, Json, Util
CONSTANTS Insts, EMIT
VARIABLES ii, done
vars == <<ii, done>>
x == Insts[ii]
Key(t, ph) == (CHOOSE p \in {t.ht[i] : i \in DOMAIN t.ht} : p[1] = ph)[2]
\* dictionary = [keys : sequence in insertion order, cnt : key -> count]
\* base entries whose keys coincide (two base phrases hashed into one column) add up; keys keep their first-seen order
BaseKeysFrom(t) == LET ks == [i \in DOMAIN t.base |-> t.base[i][1]]
                   IN SelectSeq([i \in DOMAIN ks |-> IF \E j \in 1..(i - 1) : ks[j] = ks[i] THEN <<>> ELSE <<ks[i]>>], LAMBDA e : e # <<>>)
BaseDict(t) == [keys |-> [i \in DOMAIN BaseKeysFrom(t) |-> BaseKeysFrom(t)[i][1]],
                cnt |-> [k \in {t.base[i][1] : i \in DOMAIN t.base} |->
                           SumSeq([i \in DOMAIN t.base |-> IF t.base[i][1] = k THEN t.base[i][2] ELSE 0])]]
BaseTotal(t) == SumSeq([i \in DOMAIN t.base |-> t.base[i][2]])
RECURSIVE Parse(_, _, _, _, _)
Parse(t, s, start, end, d) ==
   IF end >= Len(s) THEN d
   ELSE LET k == Key(t, SubSeq(s, start + 1, end)) IN
        IF k \in DOMAIN d.cnt THEN Parse(t, s, start, end + 1, [d EXCEPT !.cnt[k] = @ + 1])
        ELSE IF Len(d.keys) >= t.maxDict THEN Parse(t, s, end, end + 1, d)
        ELSE Parse(t, s, end, end + 1, [keys |-> Append(d.keys, k), cnt |-> d.cnt @@ (k :> 1)])
RowDict(t, s) == Parse(t, s, 0, 0, BaseDict(t))
\* fitted columns: keys in first-seen order over the training strings
RECURSIVE ColsFrom(_, _, _)
ColsFrom(t, i, cols) == IF i > Len(t.train) THEN cols
                        ELSE LET ks == RowDict(t, t.train[i]).keys
                                 new == SelectSeq(ks, LAMBDA k : \A j \in DOMAIN cols : cols[j] # k)
                             IN ColsFrom(t, i + 1, cols \o new)
Columns(t) == ColsFrom(t, 1, <<>>)
RowCells(t, s, cols) == LET d == RowDict(t, s) IN
   SelectSeq([j \in DOMAIN cols |-> <<j - 1, IF cols[j] \in DOMAIN d.cnt THEN d.cnt[cols[j]] ELSE 0>>], LAMBDA e : e[2] > 0)
Total(d) == SumSeq([i \in DOMAIN d.keys |-> d.cnt[d.keys[i]]])
CapHit(t, s) == Len(RowDict(t, s).keys) >= t.maxDict
\* C16: the row total is the string length plus the base counts whenever the cap was not reached
RowTotal == \A i \in DOMAIN x.train : ~CapHit(x, x.train[i]) =>
               Total(RowDict(x, x.train[i])) = Len(x.train[i]) + BaseTotal(x)
\* never more phrases than the cap (beyond what the base dictionary already holds), never more columns than max_columns
WithinBudget == /\ \A i \in DOMAIN x.train : Len(RowDict(x, x.train[i]).keys) <= Max2(x.maxDict, Len(x.base))
                /\ (x.ncols > 0 => Len(Columns(x)) <= x.ncols)
\* a row is a function of its own string only: the same string gives the same row wherever it stands
OwnStringOnly == \A i, j \in DOMAIN x.train : x.train[i] = x.train[j] => RowDict(x, x.train[i]) = RowDict(x, x.train[j])
Init == ii \in DOMAIN Insts /\ done = FALSE
Next == ~done /\ done' = TRUE /\ UNCHANGED ii
Spec == Init /\ [][Next]_vars
EmitInv == IF EMIT /\ done
           THEN LET cols == Columns(x) IN
                PrintT(ToJson([ii |-> ii, cols |-> cols,
                               train |-> [i \in DOMAIN x.train |-> RowCells(x, x.train[i], cols)],
                               test |-> [i \in DOMAIN x.test |-> RowCells(x, x.test[i], cols)],
                               totals |-> [i \in DOMAIN x.train |-> Total(RowDict(x, x.train[i]))],
                               caphit |-> [i \in DOMAIN x.train |-> CapHit(x, x.train[i])]]))
           ELSE TRUE
====
