---- MODULE Collapse ----
(***************************************************************************)
(* utils.sparse_collapse (not one of the listed properties; part of the    *)
(* growing specification): group the rows AND columns of a square matrix   *)
(* by a label array, summing.  The result is indexed by the sorted         *)
(* distinct labels:                                                        *)
(*    R[a][b] = sum of M[i][j] over label[i] = a, label[j] = b.            *)
(* One and two distinct labels are the special cases of the label          *)
(* binariser the implementation builds on.                                 *)
(***************************************************************************)
EXTENDS Integers, Sequences, FiniteSets, TLC, Json, Util
CONSTANTS N, NLab, MaxVal, EMIT
VARIABLES mat, lab, done
vars == <<mat, lab, done>>
Idx == 1..N
Classes == SetToSortSeq({lab[i] : i \in Idx}, <)
Cell(a, b) == SumOver({<<i, j>> \in Idx \X Idx : lab[i] = a /\ lab[j] = b}, LAMBDA p : mat[p[1]][p[2]])
Result == [x \in DOMAIN Classes |-> [y \in DOMAIN Classes |-> Cell(Classes[x], Classes[y])]]
Total(m, n) == SumOver((1..n) \X (1..n), LAMBDA p : m[p[1]][p[2]])
\* grouping neither loses nor invents mass, and keeps symmetry
Conserves == done => Total(Result, Len(Classes)) = Total(mat, N)
KeepsSymmetry == done /\ (\A i, j \in Idx : mat[i][j] = mat[j][i]) =>
                    \A x, y \in DOMAIN Classes : Result[x][y] = Result[y][x]
\* distinct labels everywhere: the result is the matrix itself, rows and columns in label order
IdentityWhenDistinct == done /\ Cardinality({lab[i] : i \in Idx}) = N =>
                    \A x, y \in Idx : Result[x][y] = mat[CHOOSE i \in Idx : lab[i] = Classes[x]][CHOOSE j \in Idx : lab[j] = Classes[y]]
Init == /\ mat \in [Idx -> [Idx -> 0..MaxVal]] /\ lab \in [Idx -> 0..(NLab - 1)] /\ done = FALSE
Next == ~done /\ done' = TRUE /\ UNCHANGED <<mat, lab>>
Spec == Init /\ [][Next]_vars
EmitInv == IF EMIT /\ done
           THEN PrintT(ToJson([mat |-> [i \in Idx |-> [j \in Idx |-> mat[i][j]]], lab |-> [i \in Idx |-> lab[i]],
                               classes |-> Classes, result |-> Result]))
           ELSE TRUE
====
