---- MODULE Trace_Dist ----
(***************************************************************************)
(* Code -> spec binding for the distance axioms of C18 on inputs TLC did   *)
(* not choose: every recorded event holds the values the real functions    *)
(* returned for a random triple (x, y, z) in fixed point (1e-6 units):     *)
(*   [f, finite, dxy, dyx, dxz, dyz, sp (sparse variant on (x, y)), prop,  *)
(*    metric (triangle inequality claimed), unit (range [0,1] claimed)]    *)
(* TLC decides the stated axioms on every event.                           *)
(***************************************************************************)
EXTENDS Integers, Sequences, TLC, Json, IOUtils, Util
E == JsonDeserialize(IOEnv.TRACE_FILE)
VARIABLES l
FX == 1000000
TOL == 2                                   \* 2e-6 slack for float rounding
Ok(e) == /\ e.finite
         /\ e.dxy >= -TOL /\ e.dyx >= -TOL
         /\ AbsV(e.dxy - e.dyx) <= TOL + (AbsV(e.dxy) \div 100000)                 \* symmetric (1e-5 relative)
         /\ (e.prop => e.dxy <= TOL)                                                 \* vanishes on proportional arguments
         /\ (e.unit => e.dxy <= FX + TOL)                                            \* within [0, 1]
         /\ (e.metric => e.dxz <= e.dxy + e.dyz + 3 * TOL)                           \* triangle inequality
         /\ AbsV(e.sp - e.dxy) <= 3000 + (AbsV(e.dxy) \div 1000)                    \* sparse = dense to float32 precision
Init == l = 1
Next == l <= Len(E) /\ l' = l + 1
Spec == Init /\ [][Next]_l
AxiomsHold == l > Len(E) \/ Ok(E[l]) \/ (PrintT(<<"BADEVENT", l, E[l]>>) /\ FALSE)
Accepted == TLCGet("stats").diameter - 1 = Len(E)
====
