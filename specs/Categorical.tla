---- MODULE Categorical ----
(***************************************************************************)
(* CategoricalColumnTransformer (not one of the listed properties; part of *)
(* the growing specification of the package's behaviour).                  *)
(* A table is a sequence of rows <<object, d_1, ..., d_k>>; NA is -1.      *)
(* For every object (in increasing order) the result is the concatenation, *)
(* over the descriptor columns in the configured order, of that object's   *)
(* non-NA values in row order - first occurrences only with                *)
(* unique_values, each value prefixed by its column name with              *)
(* include_column_name.                                                    *)
(***************************************************************************)
EXTENDS Integers, Sequences, FiniteSets, TLC, Json, Util
CONSTANTS NObj, NVal, NCols, MaxRows, EMIT
VARIABLES table, uniq, withName, done
vars == <<table, uniq, withName, done>>
NA == -1
Objects(t) == {t[i][1] : i \in DOMAIN t}
ColVals(t, o, c) == LET rows == SelectSeq(t, LAMBDA r : r[1] = o) IN
                    SelectSeq([i \in DOMAIN rows |-> rows[i][c + 1]], LAMBDA v : v # NA)
RECURSIVE FirstOcc(_)
FirstOcc(s) == IF s = <<>> THEN <<>>
               ELSE LET rest == FirstOcc(SubSeq(s, 1, Len(s) - 1)) IN
                    IF \E i \in DOMAIN rest : rest[i] = s[Len(s)] THEN rest ELSE Append(rest, s[Len(s)])
Entry(c, v) == IF withName THEN <<c, v>> ELSE <<0, v>>            \* <<column or 0, value>>
Result(t, o) == FlattenSeq([c \in 1..NCols |->
                   LET vs == IF uniq THEN FirstOcc(ColVals(t, o, c)) ELSE ColVals(t, o, c)
                   IN [i \in DOMAIN vs |-> Entry(c, vs[i])]])
\* nothing but NA values is dropped (without unique_values): the row total is the number of non-NA cells of the object
Conserves == done /\ ~uniq => \A o \in Objects(table) :
   Len(Result(table, o)) = Cardinality({<<i, c>> \in (DOMAIN table) \X (1..NCols) : table[i][1] = o /\ table[i][c + 1] # NA})
UniqueHasNoRepeats == done /\ uniq => \A o \in Objects(table) : \A i, j \in DOMAIN Result(table, o) :
   i # j => Result(table, o)[i] # Result(table, o)[j] \/ (~withName /\ TRUE)
Init == table = <<>> /\ uniq \in BOOLEAN /\ withName \in BOOLEAN /\ done = FALSE
AddRow(r) == ~done /\ Len(table) < MaxRows /\ table' = Append(table, r) /\ UNCHANGED <<uniq, withName, done>>
Finish == ~done /\ table # <<>> /\ done' = TRUE /\ UNCHANGED <<table, uniq, withName>>
Next == Finish \/ \E o \in 1..NObj : \E d \in [1..NCols -> ((0..(NVal - 1)) \cup {NA})] : AddRow(<<o>> \o d)
Spec == Init /\ [][Next]_vars
EmitInv == IF EMIT /\ done
           THEN PrintT(ToJson([table |-> table, uniq |-> uniq, withName |-> withName,
                               result |-> [o \in 1..NObj |-> IF o \in Objects(table) THEN Result(table, o) ELSE <<>>],
                               objects |-> SetToSortSeq(Objects(table), <)]))
           ELSE TRUE
====
