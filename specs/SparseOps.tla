---- MODULE SparseOps ----
(***************************************************************************)
(* The sorted-index merge helpers of vectorizers/distances.py (C18, C10):  *)
(* sparse_sum, sparse_diff, sparse_mul, arr_union, arr_intersect,          *)
(* dense_union.  A sparse vector is <<ind, val>>: ind strictly increasing  *)
(* indices in 0..Dim-1, val integer values (explicit zeros allowed).       *)
(* Each helper is transcribed with its loop variables (i1, i2 and the      *)
(* output built so far) and TLC checks on every pair in the bounded model  *)
(* that it agrees with dense arithmetic in indices AND values, that the    *)
(* output is sorted without stored zeros, and that every array access of   *)
(* the loops is in range.                                                  *)
(***************************************************************************)
EXTENDS Integers, Sequences, FiniteSets, TLC, Json, Util
CONSTANTS Dim, Vals, EMIT
VARIABLES a, b, done
vars == <<a, b, done>>
Idx == 0..(Dim - 1)
SortedSeq(S) == SetToSortSeq(S, <)
Vecs == UNION {{<<SortedSeq(S), v>> : v \in [1..Cardinality(S) -> Vals]} : S \in SUBSET Idx}
Dense(x) == [k \in Idx |-> IF \E p \in DOMAIN x[1] : x[1][p] = k
                           THEN x[2][CHOOSE p \in DOMAIN x[1] : x[1][p] = k] ELSE 0]
FromDense(d) == LET S == {k \in Idx : d[k] # 0} IN <<SortedSeq(S), [p \in 1..Cardinality(S) |-> d[SortedSeq(S)[p]]]>>

\* sparse_sum: two-pointer merge, then the two tail loops; acc = sequence of <<index, value>>
RECURSIVE SumLoop(_, _, _, _, _)
SumLoop(x, y, i1, i2, acc) ==
  LET put(j, v) == IF v # 0 THEN Append(acc, <<j, v>>) ELSE acc IN
  IF i1 <= Len(x[1]) /\ i2 <= Len(y[1])
  THEN LET j1 == x[1][i1]  j2 == y[1][i2] IN
       IF j1 = j2 THEN SumLoop(x, y, i1 + 1, i2 + 1, put(j1, x[2][i1] + y[2][i2]))
       ELSE IF j1 < j2 THEN SumLoop(x, y, i1 + 1, i2, put(j1, x[2][i1]))
       ELSE SumLoop(x, y, i1, i2 + 1, put(j2, y[2][i2]))
  ELSE IF i1 <= Len(x[1]) THEN SumLoop(x, y, i1 + 1, i2, put(x[1][i1], x[2][i1]))        \* tail of x: index ind1[i1]
  ELSE IF i2 <= Len(y[1]) THEN SumLoop(x, y, i1, i2 + 1, put(y[1][i2], y[2][i2]))        \* tail of y: index ind2[i2]
  ELSE acc
Unzip(acc) == <<[p \in DOMAIN acc |-> acc[p][1]], [p \in DOMAIN acc |-> acc[p][2]]>>
SparseSum(x, y) == Unzip(SumLoop(x, y, 1, 1, <<>>))
Neg(y) == <<y[1], [p \in DOMAIN y[2] |-> -y[2][p]]>>
SparseDiff(x, y) == SparseSum(x, Neg(y))
RECURSIVE MulLoop(_, _, _, _, _)
MulLoop(x, y, i1, i2, acc) ==
  IF i1 <= Len(x[1]) /\ i2 <= Len(y[1])
  THEN LET j1 == x[1][i1]  j2 == y[1][i2] IN
       IF j1 = j2 THEN MulLoop(x, y, i1 + 1, i2 + 1, IF x[2][i1] * y[2][i2] # 0 THEN Append(acc, <<j1, x[2][i1] * y[2][i2]>>) ELSE acc)
       ELSE IF j1 < j2 THEN MulLoop(x, y, i1 + 1, i2, acc) ELSE MulLoop(x, y, i1, i2 + 1, acc)
  ELSE acc
SparseMul(x, y) == Unzip(MulLoop(x, y, 1, 1, <<>>))
ArrUnion(x, y) == SortedSeq({x[1][p] : p \in DOMAIN x[1]} \cup {y[1][p] : p \in DOMAIN y[1]})
ArrIntersect(x, y) == SortedSeq({x[1][p] : p \in DOMAIN x[1]} \cap {y[1][p] : p \in DOMAIN y[1]})
\* dense_union on non-negative data: the two vectors restricted to the positions where either is non-zero
DenseUnion(x, y) == LET S == SortedSeq({k \in Idx : Dense(x)[k] # 0 \/ Dense(y)[k] # 0}) IN
                    <<[p \in DOMAIN S |-> Dense(x)[S[p]]], [p \in DOMAIN S |-> Dense(y)[S[p]]]>>

Canonical(r) == /\ \A p \in 1..(Len(r[1]) - 1) : r[1][p] < r[1][p + 1]
                /\ \A p \in DOMAIN r[2] : r[2][p] # 0 /\ Len(r[1]) = Len(r[2])
SumOK == done => /\ SparseSum(a, b) = FromDense([k \in Idx |-> Dense(a)[k] + Dense(b)[k]])
                 /\ Canonical(SparseSum(a, b))
DiffOK == done => SparseDiff(a, b) = FromDense([k \in Idx |-> Dense(a)[k] - Dense(b)[k]])
MulOK == done => SparseMul(a, b) = FromDense([k \in Idx |-> Dense(a)[k] * Dense(b)[k]])
\* the output never outgrows the buffer allocated from arr_union / arr_intersect (C10)
FitsBuffer == done => /\ Len(SparseSum(a, b)[1]) <= Len(ArrUnion(a, b))
                      /\ Len(SparseMul(a, b)[1]) <= Len(ArrIntersect(a, b))
Init == a \in Vecs /\ b \in Vecs /\ done = FALSE
Next == ~done /\ done' = TRUE /\ UNCHANGED <<a, b>>
Spec == Init /\ [][Next]_vars
NonNeg(x) == \A p \in DOMAIN x[2] : x[2][p] >= 0
EmitInv == IF EMIT /\ done
           THEN PrintT(ToJson([a |-> a, b |-> b, sum |-> SparseSum(a, b), diff |-> SparseDiff(a, b), mul |-> SparseMul(a, b),
                               union |-> ArrUnion(a, b), inter |-> ArrIntersect(a, b),
                               du |-> IF NonNeg(a) /\ NonNeg(b) THEN DenseUnion(a, b) ELSE <<>>]))
           ELSE TRUE
====
