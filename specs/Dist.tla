---- MODULE Dist ----
(***************************************************************************)
(* Exact values and axioms of the distances of vectorizers/distances.py    *)
(* that have a closed rational form (C18), on non-negative integer vectors *)
(* whose entries are perfect squares (so sqrt(x_i * y_i) is an integer):   *)
(*   total variation  TV = sum |x_i Y - y_i X| / (2 X Y)                   *)
(*   Kantorovich p=1  K1 = sum |Cx_i Y - Cy_i X| / (X Y)   (C = cumsum)    *)
(*   Hellinger        H^2 = 1 - S / sqrt(N),  S = sum sqrt(x_i y_i),       *)
(*                    N = X Y                                              *)
(* TLC checks symmetry, range [0, 1], zero exactly on proportional pairs   *)
(* and the triangle inequality (TV, K1) on every pair / triple.            *)
(***************************************************************************)
EXTENDS Integers, Sequences, FiniteSets, TLC, Json, Util
CONSTANTS Dim, Entries, EMIT, Triples
VARIABLES x, y, z, done
vars == <<x, y, z, done>>
Vec == {v \in [1..Dim -> Entries] : SumSeq(v) > 0}
Mass(v) == SumSeq(v)
Cum(v) == [i \in 1..Dim |-> SumSeq(SubSeq(v, 1, i))]
ISqrt(n) == CHOOSE r \in 0..n : r * r = n
TVnum(u, v) == SumSeq([i \in 1..Dim |-> AbsV(u[i] * Mass(v) - v[i] * Mass(u))])
TVden(u, v) == 2 * Mass(u) * Mass(v)
K1num(u, v) == SumSeq([i \in 1..Dim |-> AbsV(Cum(u)[i] * Mass(v) - Cum(v)[i] * Mass(u))])
K1den(u, v) == Mass(u) * Mass(v)
HS(u, v) == SumSeq([i \in 1..Dim |-> ISqrt(u[i] * v[i])])
HN(u, v) == Mass(u) * Mass(v)
Proportional(u, v) == \A i \in 1..Dim : u[i] * Mass(v) = v[i] * Mass(u)
\* fractions: n1/d1 <= n2/d2 + n3/d3
LeqSum(n1, d1, n2, d2, n3, d3) == n1 * d2 * d3 <= (n2 * d3 + n3 * d2) * d1
Axioms == done =>
   /\ TVnum(x, y) = TVnum(y, x) /\ K1num(x, y) = K1num(y, x) /\ HS(x, y) = HS(y, x)
   /\ TVnum(x, y) >= 0 /\ TVnum(x, y) <= TVden(x, y)
   /\ (Proportional(x, y) <=> TVnum(x, y) = 0) /\ (Proportional(x, y) <=> K1num(x, y) = 0)
   /\ (Proportional(x, y) <=> HS(x, y) * HS(x, y) = HN(x, y))       \* Cauchy-Schwarz equality
   /\ HS(x, y) * HS(x, y) <= HN(x, y)                                \* so H^2 >= 0: never the sqrt of a negative number
Triangle == done /\ Triples =>
   /\ LeqSum(TVnum(x, z), TVden(x, z), TVnum(x, y), TVden(x, y), TVnum(y, z), TVden(y, z))
   /\ LeqSum(K1num(x, z), K1den(x, z), K1num(x, y), K1den(x, y), K1num(y, z), K1den(y, z))
Init == x \in Vec /\ y \in Vec /\ z \in (IF Triples THEN Vec ELSE {[i \in 1..Dim |-> 1]}) /\ done = FALSE
Next == ~done /\ done' = TRUE /\ UNCHANGED <<x, y, z>>
Spec == Init /\ [][Next]_vars
EmitInv == IF EMIT /\ done
           THEN PrintT(ToJson([x |-> x, y |-> y, tv |-> <<TVnum(x, y), TVden(x, y)>>, k1 |-> <<K1num(x, y), K1den(x, y)>>,
                               hs |-> HS(x, y), hn |-> HN(x, y), prop |-> Proportional(x, y)]))
           ELSE TRUE
====
