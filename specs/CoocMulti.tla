---- MODULE CoocMulti ----
(***************************************************************************)
(* Meaning of MultiSetCooccurrenceVectorizer (n_iter = 0, epsilon = 0).    *)
(*                                                                         *)
(* A document is a sequence of multisets (each written as a sequence of    *)
(* token indices).  The context of an occurrence (multiset m, slot q) of   *)
(* token t in window w is: every other member of its own multiset          *)
(* (distance 0), then the members of the next (after) / previous (before)  *)
(* R multisets at distances 1..R, where R is the radius OF THE TARGET      *)
(* TOKEN t; the occurrence itself is not its own context.  The kernel      *)
(* weight depends on the multiset distance k (flat: 1, geometric: 2^-k);   *)
(* `offset` removes the multisets at distances 0..offset-1 as a whole.     *)
(***************************************************************************)
EXTENDS CoocCore
CONSTANTS V, MaxSet, MaxSets, MaxDocs, Cfgs, EMIT,
          AllowMask     \* BOOLEAN: the generated corpora may contain the mask token V (positions of pruned tokens, C14)
Tok == 0..V
VARIABLES corpus, ci, done
vars == <<corpus, ci, done>>

\* multiset indices visited by window w from multiset m of doc, nearest (own) first
Groups(doc, m, r, w) == IF w.orient = "after"
                        THEN [k \in 1..(Min2(r, Len(doc) - m) + 1) |-> m + k - 1]
                        ELSE [k \in 1..(Min2(r, m - 1) + 1) |-> m - k + 1]
\* flattened contexts: <<token, distance, isSelf>>
Contexts(doc, m, q, w) ==
  LET r == w.radius[doc[m][q] + 1]
      gs == Groups(doc, m, r, w)
  IN FlattenSeq([k \in DOMAIN gs |-> [x \in DOMAIN doc[gs[k]] |-> <<doc[gs[k]][x], k - 1, (k = 1 /\ x = q)>>]])
KNumM(cfg, w, c) == IF c[2] < w.offset \/ c[3] \/ (cfg.nullify /\ c[1] = V) THEN 0 ELSE KBase(cfg, c[2])
WinM(cfg, doc, m, q, w) ==
  LET cx == Contexts(doc, m, q, w)
  IN WinRec(cfg, w, [j \in DOMAIN cx |-> cx[j][1]], [j \in DOMAIN cx |-> KNumM(cfg, w, cx[j])])
EventsAt(cfg, doc, m, q) ==
  LET ws == IWins(cfg) IN OccEvents(cfg, doc[m][q], [i \in DOMAIN ws |-> WinM(cfg, doc, m, q, ws[i])])
EventsDoc(cfg, doc) == FlattenSeq([m \in DOMAIN doc |-> FlattenSeq([q \in DOMAIN doc[m] |-> EventsAt(cfg, doc, m, q)])])
Events(cfg, c) == FlattenSeq([d \in DOMAIN c |-> EventsDoc(cfg, c[d])])
Cells(cfg, c) == CellsOf(Events(cfg, c))

\* declarative cross-check (un-normalised): pairs of distinct occurrences at multiset distance k
DeclCell(cfg, c, i, a, b) ==
  LET w == IWins(cfg)[i]
      Dist(m, g) == IF w.orient = "after" THEN g - m ELSE m - g
  IN SumSeq([d \in DOMAIN c |-> SumSeq([m \in DOMAIN c[d] |-> SumSeq([q \in DOMAIN c[d][m] |->
       IF c[d][m][q] # a THEN 0
       ELSE SumSeq([g \in DOMAIN c[d] |-> SumSeq([x \in DOMAIN c[d][g] |->
              LET k == Dist(m, g) IN
              IF c[d][g][x] = b /\ k >= 0 /\ k <= w.radius[a + 1] /\ ~(g = m /\ x = q)
                 /\ k >= w.offset /\ ~(cfg.nullify /\ b = V)
              THEN w.mix * KBase(cfg, k) ELSE 0])])])])])
Refines == done /\ Plain(Cfgs[ci]) =>
   LET cfg == Cfgs[ci]  cs == Cells(cfg, corpus) IN
   \A i \in DOMAIN IWins(cfg), a \in Tok, b \in Tok :
       DeclCell(cfg, corpus, i, a, b) = CellInt(cs, <<i, a, b>>, KDen(cfg))
\* singleton multisets: the multiset vectorizer degenerates to the token vectorizer
\* (distance k between singletons = index distance), checked against Cooc's formula
Singletons(c) == \A d \in DOMAIN c : \A m \in DOMAIN c[d] : Len(c[d][m]) = 1
TokenDecl(cfg, c, i, a, b) ==
  LET w == IWins(cfg)[i] IN
  SumSeq([d \in DOMAIN c |-> SumSeq([p \in DOMAIN c[d] |->
     IF c[d][p][1] # a THEN 0
     ELSE SumSeq([g \in DOMAIN c[d] |->
            LET k == IF w.orient = "after" THEN g - p ELSE p - g IN
            IF k >= 1 /\ k <= w.radius[a + 1] /\ c[d][g][1] = b /\ k >= w.offset THEN w.mix * KBase(cfg, k) ELSE 0])])])
DegeneratesToToken == done /\ Plain(Cfgs[ci]) /\ ~Cfgs[ci].nullify /\ Singletons(corpus) =>
   \A i \in DOMAIN IWins(Cfgs[ci]), a \in Tok, b \in Tok :
       DeclCell(Cfgs[ci], corpus, i, a, b) = TokenDecl(Cfgs[ci], corpus, i, a, b)
WindowMassOne == done /\ Cfgs[ci].wnorm =>
   \A d \in DOMAIN corpus : \A m \in DOMAIN corpus[d] : \A q \in DOMAIN corpus[d][m] :
      MassOne(EventsAt(Cfgs[ci], corpus[d], m, q))

Init == corpus = << << <<>> >> >> /\ ci \in DOMAIN Cfgs /\ done = FALSE
LastDoc == corpus[Len(corpus)]
AddTok(t) == /\ ~done /\ Len(LastDoc[Len(LastDoc)]) < MaxSet
             /\ corpus' = [corpus EXCEPT ![Len(corpus)][Len(LastDoc)] = Append(@, t)] /\ UNCHANGED <<ci, done>>
NewSet == /\ ~done /\ Len(LastDoc) < MaxSets /\ LastDoc[Len(LastDoc)] # <<>>
          /\ corpus' = [corpus EXCEPT ![Len(corpus)] = Append(@, <<>>)] /\ UNCHANGED <<ci, done>>
NewDoc == /\ ~done /\ Len(corpus) < MaxDocs /\ LastDoc[Len(LastDoc)] # <<>>
          /\ corpus' = Append(corpus, << <<>> >>) /\ UNCHANGED <<ci, done>>
Finish == /\ ~done /\ LastDoc[Len(LastDoc)] # <<>> /\ done' = TRUE /\ UNCHANGED <<corpus, ci>>
Next == (\E t \in 0..(IF AllowMask THEN V ELSE V - 1) : AddTok(t)) \/ NewSet \/ NewDoc \/ Finish
Spec == Init /\ [][Next]_vars
EmitInv == IF EMIT /\ done
           THEN PrintT(ToJson([corpus |-> corpus, ci |-> ci, cells |-> CellsJson(Cfgs[ci], Cells(Cfgs[ci], corpus))]))
           ELSE TRUE
====
