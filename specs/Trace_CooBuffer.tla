---- MODULE Trace_CooBuffer ----
(***************************************************************************)
(* Code -> spec binding for the COO accumulator: is each recorded          *)
(* execution of the real coo_append a behaviour of CooBuffer?              *)
(*                                                                         *)
(* The trace file (IOEnv.TRACE_FILE) holds a batch                         *)
(*   [limit, cap0, maxkey, fixed, traces : <<[steps : <<step>>]>>]         *)
(* where a step is the appended (k, v) and the projected state of the      *)
(* real CooArray after the call returned: ind, depth, cap, mn (whole       *)
(* array), key and val (live region 0..ind-1).                             *)
(* Step l of trace tid must equal CooAppend(st, k, v) on every logged      *)
(* field; the set of fields that differ is recorded in `bad` and reported. *)
(* All design invariants of CooBuffer are evaluated at every step.         *)
(* Run with -workers 1 (TLCSet registers are per worker).                  *)
(***************************************************************************)
EXTENDS Integers, Sequences, TLC, Json, IOUtils, FiniteSets
T == JsonDeserialize(IOEnv.TRACE_FILE)
NT == Len(T.traces)
VARIABLES st, hist, nApp, h, tid, l, bad
C == INSTANCE CooBuffer WITH LIMIT <- T.limit, CAP0 <- T.cap0, Keys <- 0..T.maxkey, Vals <- {1},
                             MaxAppends <- 1000000, FIXED <- T.fixed, EMIT <- FALSE
Steps == T.traces[tid].steps
TInit == /\ tid \in 1..NT /\ l = 1 /\ bad = {} /\ h = <<>>
         /\ st = C!InitSt(T.cap0) /\ hist = [k \in 0..T.maxkey |-> 0] /\ nApp = 0
         /\ TLCSet(1, {})
TNext == /\ bad = {} /\ l <= Len(Steps)
         /\ LET e == Steps[l]
                s2 == C!CooAppend(st, e.k, e.v)
                p == C!Proj(s2)
            IN /\ st' = s2
               /\ bad' = (IF s2.oob THEN {"spec_oob"} ELSE {})
                          \cup (IF p.ind # e.ind THEN {"ind"} ELSE {})
                          \cup (IF p.depth # e.depth THEN {"depth"} ELSE {})
                          \cup (IF p.cap # e.cap THEN {"cap"} ELSE {})
                          \cup (IF p.mn # e.mn THEN {"mn"} ELSE {})
                          \cup (IF p.key # e.key THEN {"key"} ELSE {})
                          \cup (IF p.val # e.val THEN {"val"} ELSE {})
               /\ hist' = [hist EXCEPT ![e.k] = @ + e.v]
         /\ nApp' = nApp + 1 /\ l' = l + 1 /\ UNCHANGED <<tid, h>>
TSpec == TInit /\ [][TNext]_<<st, hist, nApp, h, tid, l, bad>>

\* bookkeeping, evaluated once per distinct state
Mark == /\ (bad # {} => PrintT(ToJson([mismatch_tid |-> tid, step |-> l - 1, bad |-> bad])))
        /\ (bad = {} /\ l = Len(Steps) + 1 => TLCSet(1, TLCGet(1) \cup {tid}))
\* design invariants on the spec state that the real trace drives
Conserved == bad # {} \/ C!Conservation
Sorted    == bad # {} \/ C!RunsSorted
LayoutOK  == bad # {} \/ C!Layout
RoomOK    == bad # {} \/ C!Room
FinalOK   == bad # {} \/ l <= Len(Steps) \/ C!FinalOK
Accepted == IF TLCGet(1) = 1..NT THEN TRUE
            ELSE PrintT(<<"REJECTED", (1..NT) \ TLCGet(1)>>) /\ FALSE
====
