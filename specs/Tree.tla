---- MODULE Tree ----
(***************************************************************************)
(* LabelledTreeCooccurrenceVectorizer (C15, C14, C01).                     *)
(* instance = [trees : <<[par : <<parent of node 1..n, 0 = root>>,         *)
(*                        lab : <<label of node 1..n>>]>>,                 *)
(*             r (window_radius), kernel, orient : "after" | "before" |    *)
(*             "symmetric" | "directional", excluded : set of labels,      *)
(*             mask : BOOLEAN, nullify : BOOLEAN,                          *)
(*             offset (kernel_args offset: distances <= offset weigh 0),   *)
(*             knorm (kernel_args normalize: the weights of the distances  *)
(*             1..r are divided by their sum)]                             *)
(* In a forest a directed walk of k steps from u to v exists iff u is the  *)
(* k-th ancestor of v, and then it is unique.                              *)
(* Entry (a, b) = sum over trees, node pairs (u labelled a, v labelled b)  *)
(* and k <= r of  weight(k) * [u is the k-th ancestor of v].               *)
(* Removing a label (no mask) re-parents the children of each removed node *)
(* to its nearest kept ancestor; with a mask string the node keeps its     *)
(* place and is relabelled V (the mask); nullify zeroes the mask's row and *)
(* column.                                                                 *)
(***************************************************************************)
EXTENDS CoocCore
CONSTANTS Insts, V, EMIT
VARIABLES ii, done
vars == <<ii, done>>
x == Insts[ii]
MASK == V
KC(t) == [kernel |-> t.kernel]                   \* record understood by CoocCore!KBase / KDen
\* weight of distance k as a numerator over Den(t)
W(t, k) == IF k <= t.offset THEN 0 ELSE KBase(KC(t), k)
WSum(t) == SumSeq([k \in 1..t.r |-> W(t, k)])
Den(t) == IF t.knorm /\ WSum(t) > 0 THEN WSum(t) ELSE KDen(KC(t))
Nodes(tr) == DOMAIN tr.par
RECURSIVE Anc(_, _, _)
Anc(par, v, k) == IF k = 0 THEN v ELSE IF par[v] = 0 THEN 0 ELSE Anc(par, par[v], k - 1)
Removed(t, tr) == IF t.mask THEN {} ELSE {v \in Nodes(tr) : tr.lab[v] \in t.excluded}
\* nearest kept proper ancestor (0 if none)
RECURSIVE KeptParent(_, _, _)
KeptParent(par, S, v) == IF par[v] = 0 THEN 0 ELSE IF par[v] \notin S THEN par[v] ELSE KeptParent(par, S, par[v])
Contract(t, tr) == LET S == Removed(t, tr) IN
   [par |-> [v \in Nodes(tr) |-> IF v \in S THEN 0 ELSE KeptParent(tr.par, S, v)],
    lab |-> [v \in Nodes(tr) |-> IF t.mask /\ tr.lab[v] \in t.excluded THEN MASK ELSE tr.lab[v]]]
Live(t, tr) == Nodes(tr) \ Removed(t, tr)
\* 'after' entry numerator over KDen
After(t, a, b) ==
   SumSeq([i \in DOMAIN t.trees |->
      LET tr == t.trees[i]  c == Contract(t, tr) IN
      SumOver({uv \in Live(t, tr) \X Live(t, tr) : c.lab[uv[1]] = a /\ c.lab[uv[2]] = b},
              LAMBDA uv : SumSeq([k \in 1..t.r |-> IF Anc(c.par, uv[2], k) = uv[1] THEN W(t, k) ELSE 0]))])
Nul(t, a, b) == t.nullify /\ t.mask /\ (a = MASK \/ b = MASK)
Aft(t, a, b) == IF Nul(t, a, b) THEN 0 ELSE After(t, a, b)
Labels(t) == ((0..(V - 1)) \ t.excluded) \cup (IF t.mask THEN {MASK} ELSE {})
\* cells <<block, a, b, numerator>>; block "" for the single-block orientations
Cells(t) == LET L == Labels(t) IN
   CASE t.orient = "after" -> {<<"", a, b, Aft(t, a, b)>> : a \in L, b \in L}
     [] t.orient = "before" -> {<<"", a, b, Aft(t, b, a)>> : a \in L, b \in L}
     [] t.orient = "symmetric" -> {<<"", a, b, Aft(t, a, b) + Aft(t, b, a)>> : a \in L, b \in L}
     [] t.orient = "directional" -> {<<"pre_", a, b, Aft(t, b, a)>> : a \in L, b \in L} \cup {<<"post_", a, b, Aft(t, a, b)>> : a \in L, b \in L}
\* ---- lemmas
\* contraction preserves reachability among kept nodes and shortens a walk by the removed nodes it passed through
IsAnc(par, u, v) == \E k \in 1..Len(par) : Anc(par, v, k) = u
ReachPreserved == \A i \in DOMAIN x.trees :
   LET tr == x.trees[i]  c == Contract(x, tr) IN
   \A u, v \in Live(x, tr) : IsAnc(tr.par, u, v) <=> IsAnc(c.par, u, v)
Shortened == \A i \in DOMAIN x.trees :
   LET tr == x.trees[i]  c == Contract(x, tr)  S == Removed(x, tr) IN
   \A u, v \in Live(x, tr) : \A k \in 1..Len(tr.par) :
      Anc(tr.par, v, k) = u => Anc(c.par, v, k - Cardinality({j \in 1..(k - 1) : Anc(tr.par, v, j) \in S})) = u
\* on path graphs (node v's parent is v - 1) the entry is the sequence co-occurrence of the label sequence:
\* pairs of positions p < q <= p + r of the (pruned or masked) sequence, weight(q - p)
IsPath(tr) == \A v \in Nodes(tr) : tr.par[v] = v - 1
PathLemma == (\A i \in DOMAIN x.trees : IsPath(x.trees[i])) =>
   \A a, b \in Labels(x) :
      After(x, a, b) = SumSeq([i \in DOMAIN x.trees |->
         LET tr == x.trees[i]
             s == IF x.mask THEN [p \in Nodes(tr) |-> IF tr.lab[p] \in x.excluded THEN MASK ELSE tr.lab[p]]
                  ELSE SelectSeq(tr.lab, LAMBDA l : l \notin x.excluded)
         IN SumOver({pq \in (DOMAIN s) \X (DOMAIN s) : pq[1] < pq[2] /\ pq[2] - pq[1] <= x.r /\ s[pq[1]] = a /\ s[pq[2]] = b},
                    LAMBDA pq : W(x, pq[2] - pq[1]))])
Init == ii \in DOMAIN Insts /\ done = FALSE
Next == ~done /\ done' = TRUE /\ UNCHANGED ii
Spec == Init /\ [][Next]_vars
EmitInv == IF EMIT /\ done
           THEN PrintT(ToJson([ii |-> ii, den |-> Den(x),
                               cells |-> SetToSeq({[blk |-> c[1], r |-> c[2], c |-> c[3], v |-> c[4]] : c \in {d \in Cells(x) : d[4] # 0}})]))
           ELSE TRUE
====
