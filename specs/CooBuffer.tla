---- MODULE CooBuffer ----
(***************************************************************************)
(* The COO accumulator of vectorizers/coo_utils.py as a state machine.     *)
(*                                                                         *)
(* One operator per function of the implementation, one record field per   *)
(* array of the CooArray namedtuple:                                       *)
(*   key, val : 0..cap-1 -> Int     (row/col are functions of key and are   *)
(*                                   checked by the projection function of  *)
(*                                   the harness: row*M + col = key)        *)
(*   ind      : number of filled slots            (coo.ind[0])             *)
(*   mn       : the "min" stack of run boundaries (coo.min)                *)
(*   depth    : number of used levels of mn       (coo.depth[0])           *)
(*   oob      : an access outside an array happened (never in the code:    *)
(*              there it is silent memory corruption; here it is a flag)   *)
(* SumDup = coo_sum_duplicates (sort + dedupe of the unsorted tail),       *)
(* MergeLevels = merge_sum_duplicates (binary-counter merge of sorted      *)
(* runs), MergeAll = merge_all_sum_duplicates, IncreaseMem =               *)
(* coo_increase_mem, CooAppend = coo_append, Finalize = what the callers   *)
(* do after the last append.                                               *)
(*                                                                         *)
(* FIXED = FALSE is the flush condition of the pinned tree                 *)
(* (`this_key != coo.key[upper_lim]`, which reads one slot past the filled  *)
(* region and loses the last run when the stale key there equals it);      *)
(* FIXED = TRUE is the repaired condition (`upper_lim > lower_lim`).       *)
(* Properties C04 / C10: NoOOB, Conservation, RunsSorted, FinalOK.         *)
(***************************************************************************)
EXTENDS Integers, Sequences, FiniteSets, TLC, Functions, FiniteSetsExt, SequencesExt, Json
CONSTANTS LIMIT,       \* COO_QUICKSORT_LIMIT (65536 in production; small here and under the hook)
          CAP0,        \* initial capacity (array_lengths[i])
          Keys,        \* set of keys that may be appended
          Vals,        \* set of (integer) values that may be appended
          MaxAppends,  \* bound on the number of appends explored
          FIXED,       \* see above
          EMIT         \* print every distinct reachable state with the history that led to it

Abs(x) == IF x < 0 THEN -x ELSE x
Max2(a,b) == IF a > b THEN a ELSE b
RECURSIVE CeilLog2(_)
CeilLog2(n) == IF n <= 1 THEN 0 ELSE 1 + CeilLog2((n + 1) \div 2)
Round15(n) == IF n % 2 = 0 THEN (3 * n) \div 2      \* numpy round-half-even of 1.5 n
              ELSE LET lo == (3 * n - 1) \div 2 IN IF lo % 2 = 0 THEN lo ELSE lo + 1
ZeroArr(n) == [i \in 0..(n-1) |-> 0]
Size(a) == Cardinality(DOMAIN a)

VARIABLES st, hist, nApp, h
vars == <<st, hist, nApp, h>>
Core(s) == [key |-> s.key, val |-> s.val, ind |-> s.ind, mn |-> s.mn, depth |-> s.depth, oob |-> s.oob]
view == <<Core(st), hist, nApp>>
InitSt(cap) == [key |-> ZeroArr(cap), val |-> ZeroArr(cap), ind |-> 0,
                mn |-> ZeroArr(2 * CeilLog2(cap)), depth |-> 0, oob |-> FALSE,
                nSum |-> 0, nMergeAll |-> 0, nGrow |-> 0]      \* ghost counters (coverage only)
Cap(s) == Size(s.key)
Rd(a, i) == IF i \in DOMAIN a THEN a[i] ELSE -999
InB(a, i) == i \in DOMAIN a

RECURSIVE InsertSorted(_, _)
InsertSorted(seq, e) == IF seq = <<>> THEN <<e>>
  ELSE IF e[1] < Head(seq)[1] THEN <<e>> \o seq ELSE <<Head(seq)>> \o InsertSorted(Tail(seq), e)
RECURSIVE SortRange(_, _, _)
SortRange(s, lo, hi) == IF lo >= hi THEN <<>>
                        ELSE InsertSorted(SortRange(s, lo + 1, hi), <<s.key[lo], s.val[lo]>>)

RECURSIVE DedupePass(_, _, _, _, _, _)          \* coo_utils.py:129-141
DedupePass(a, i, upper, sumInd, thisKey, thisVal) ==
  IF i >= upper THEN [a |-> a, sumInd |-> sumInd, thisKey |-> thisKey, thisVal |-> thisVal]
  ELSE IF a.key[i] = thisKey THEN DedupePass(a, i + 1, upper, sumInd, thisKey, thisVal + a.val[i])
  ELSE DedupePass([key |-> [a.key EXCEPT ![sumInd] = thisKey], val |-> [a.val EXCEPT ![sumInd] = thisVal]],
                  i + 1, upper, sumInd + 1, a.key[i], a.val[i])

SumDup(s) ==                                     \* coo_sum_duplicates minus the final merge call
  LET lower == Abs(s.mn[0])   upper == s.ind
      sorted == SortRange(s, lower, upper)
      a0 == [key |-> [i \in DOMAIN s.key |-> IF i >= lower /\ i < upper THEN sorted[i-lower+1][1] ELSE s.key[i]],
             val |-> [i \in DOMAIN s.val |-> IF i >= lower /\ i < upper THEN sorted[i-lower+1][2] ELSE s.val[i]]]
      oob1 == ~InB(s.key, lower) \/ ~InB(s.key, upper)          \* reads key[lower], key[upper]
      r == DedupePass(a0, lower, upper, lower, Rd(a0.key, lower), 0)
      flush == IF FIXED THEN upper > lower ELSE r.thisKey # Rd(r.a.key, upper)   \* line 143
      a3 == IF flush /\ InB(r.a.key, r.sumInd)
            THEN [key |-> [r.a.key EXCEPT ![r.sumInd] = r.thisKey], val |-> [r.a.val EXCEPT ![r.sumInd] = r.thisVal]]
            ELSE r.a
  IN [s EXCEPT !.key = a3.key, !.val = a3.val, !.ind = IF flush THEN r.sumInd + 1 ELSE r.sumInd,
               !.oob = s.oob \/ (IF FIXED THEN FALSE ELSE oob1), !.nSum = s.nSum + 1]

RECURSIVE MergeLoop(_, _, _, _, _, _)           \* two-pointer merge, duplicates summed
MergeLoop(s, p1, e1, p2, e2, res) ==
  IF p1 >= e1 /\ p2 >= e2 THEN res
  ELSE LET take1 == IF p1 < e1 /\ p2 < e2 THEN s.key[p1] <= s.key[p2] ELSE p1 < e1
           p == IF take1 THEN p1 ELSE p2
           res2 == IF res # <<>> /\ res[Len(res)][1] = s.key[p]
                   THEN [res EXCEPT ![Len(res)] = <<s.key[p], res[Len(res)][2] + s.val[p]>>]
                   ELSE Append(res, <<s.key[p], s.val[p]>>)
       IN IF take1 THEN MergeLoop(s, p1+1, e1, p2, e2, res2) ELSE MergeLoop(s, p1, e1, p2+1, e2, res2)

SetPrefix(mn, n, v) == [i \in DOMAIN mn |-> IF i < n THEN v ELSE mn[i]]
RECURSIVE MergeLevels(_, _)                      \* merge_sum_duplicates: binary-counter walk
MergeLevels(s, i) ==
  IF i >= s.depth
  THEN LET m1 == SetPrefix(s.mn, s.depth, -s.ind)
       IN IF InB(m1, s.depth) THEN [s EXCEPT !.mn = [m1 EXCEPT ![s.depth] = s.ind], !.depth = s.depth + 1]
          ELSE [s EXCEPT !.oob = TRUE]
  ELSE IF s.mn[i] <= 0 THEN [s EXCEPT !.mn = [SetPrefix(s.mn, i, -s.ind) EXCEPT ![i] = s.ind]]
  ELSE IF ~InB(s.mn, i + 1) THEN [s EXCEPT !.oob = TRUE]
  ELSE LET start == Abs(s.mn[i + 1])   mid == s.mn[i]
           res == MergeLoop(s, start, mid, mid, s.ind, <<>>)
           fill(arr, f) == [j \in DOMAIN arr |-> IF j >= start /\ j < s.ind
                              THEN (IF j - start + 1 <= Len(res) THEN res[j - start + 1][f] ELSE 0) ELSE arr[j]]
       IN MergeLevels([s EXCEPT !.key = fill(s.key, 1), !.val = fill(s.val, 2), !.ind = start + Len(res)], i + 1)
CooSumDuplicates(s) == MergeLevels(SumDup(s), 0)

RECURSIVE PackPos(_, _, _)
PackPos(mn, i, d) == IF i >= d THEN <<>> ELSE (IF mn[i] > 0 THEN <<mn[i]>> ELSE <<>>) \o PackPos(mn, i + 1, d)
MergeAll(s) == LET pk == PackPos(s.mn, 0, s.depth)
                   m1 == [i \in DOMAIN s.mn |-> IF i < s.depth THEN (IF i + 1 <= Len(pk) THEN pk[i + 1] ELSE 0) ELSE s.mn[i]]
               IN MergeLevels([s EXCEPT !.mn = m1, !.nMergeAll = s.nMergeAll + 1], 0)
IncreaseMem(s) ==
  LET nc == Max2(Round15(Cap(s)), LIMIT + 1)   nm == Round15(Size(s.mn) + 2)
  IN [s EXCEPT !.key = [i \in 0..(nc-1) |-> IF i < Cap(s) THEN s.key[i] ELSE 0],
               !.val = [i \in 0..(nc-1) |-> IF i < Cap(s) THEN s.val[i] ELSE 0],
               !.mn  = [i \in 0..(nm-1) |-> IF i < Size(s.mn) THEN s.mn[i] ELSE 0],
               !.nGrow = s.nGrow + 1]
Compact(s) == LET s1 == CooSumDuplicates(s)
              IN IF Cap(s1) - Abs(s1.mn[0]) <= LIMIT
                 THEN LET s2 == MergeAll(s1) IN IF s2.ind * 100 >= 95 * Cap(s2) THEN IncreaseMem(s2) ELSE s2
                 ELSE s1
CooAppend(s, k, v) ==                            \* coo_append
  IF ~InB(s.key, s.ind) THEN [s EXCEPT !.oob = TRUE]
  ELSE LET s0 == [s EXCEPT !.key[s.ind] = k, !.val[s.ind] = v, !.ind = s.ind + 1]
           s1 == IF s0.ind - Abs(s0.mn[0]) >= LIMIT THEN Compact(s0) ELSE s0
       IN IF ~s1.oob /\ s1.ind = Cap(s1) - 1 THEN Compact(s1) ELSE s1
Finalize(s) == MergeAll(CooSumDuplicates(s))

Total(s, k) == FoldSet(LAMBDA i, acc : acc + s.val[i], 0,
                       {i \in 0..(s.ind - 1) : i \in DOMAIN s.key /\ s.key[i] = k})
Init == st = InitSt(CAP0) /\ hist = [k \in Keys |-> 0] /\ nApp = 0 /\ h = <<>>
DoAppend(k, v) == /\ nApp < MaxAppends /\ ~st.oob /\ st' = CooAppend(st, k, v)
                  /\ hist' = [hist EXCEPT ![k] = @ + v] /\ nApp' = nApp + 1
                  /\ h' = Append(h, <<k, v>>)
Next == \E k \in Keys, v \in Vals : DoAppend(k, v)
Spec == Init /\ [][Next]_vars
NoOOB == ~st.oob
Conservation == st.oob \/ \A k \in Keys : Total(st, k) = hist[k]
FinalOK == st.oob \/ LET f == Finalize(st) IN f.oob \/
             (/\ \A k \in Keys : Total(f, k) = hist[k]
              /\ \A i, j \in 0..(f.ind - 1) : i < j => f.key[i] < f.key[j])
\* every maximal sorted run (between consecutive boundaries recorded in mn) is strictly increasing
Bounds(s) == {0} \cup {Abs(s.mn[i]) : i \in {j \in DOMAIN s.mn : j < s.depth}}
RunsSorted == st.oob \/
   \A i \in 0..(Abs(st.mn[0]) - 2) :
        (i + 1) \in Bounds(st) \/ st.key[i] < st.key[i + 1]
\* mn describes a partition of the sorted prefix: boundaries lie inside it and positive entries decrease with level
Layout == st.oob \/
   /\ Abs(st.mn[0]) <= st.ind /\ st.ind <= Cap(st) /\ st.depth <= Size(st.mn)
   /\ \A i \in 0..(st.depth - 1) : Abs(st.mn[i]) <= Abs(st.mn[0])
   /\ \A i, j \in 0..(st.depth - 1) : i < j => Abs(st.mn[j]) <= Abs(st.mn[i])
\* room for the next append (the design must keep ind strictly below the capacity)
Room == st.oob \/ st.ind < Cap(st)

Seq0(a) == [i \in 1..Size(a) |-> a[i - 1]]
Proj(s) == [nSum |-> s.nSum, nMergeAll |-> s.nMergeAll, nGrow |-> s.nGrow, ind |-> s.ind, depth |-> s.depth, cap |-> Cap(s), mn |-> Seq0(s.mn),
            key |-> SubSeq(Seq0(s.key), 1, s.ind), val |-> SubSeq(Seq0(s.val), 1, s.ind)]
EmitInv == IF EMIT /\ ~st.oob /\ nApp > 0
           THEN PrintT(ToJson([h |-> h, st |-> Proj(st), fin |-> Proj(Finalize(st))]))
           ELSE TRUE
====
